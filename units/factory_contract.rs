// ===== contracts/halo-factory/src/contract.rs (function text extracted from /repo) =====
pub open spec fn is_owner(s: Storage, who: Seq<char>) -> bool { s.config is Some && canon_of(who) == s.config->Some_0.owner.0@ }

//%fn contracts/halo-factory/src/contract.rs | - | execute_update_config
//%%sig
    ensures
        /*[C14 cfg.only-owner]*/ r is Ok ==> is_owner(*old(deps.storage), info.sender.0@),
        /*[C14 cfg.ownership-follows]*/ r is Ok ==> final(deps.storage).config is Some
            && final(deps.storage).config->Some_0.owner.0@ == (if owner is Some { canon_of(owner->Some_0@) } else { old(deps.storage).config->Some_0.owner.0@ })
            && final(deps.storage).config->Some_0.token_code_id == (if token_code_id is Some { token_code_id->Some_0 } else { old(deps.storage).config->Some_0.token_code_id })
            && final(deps.storage).config->Some_0.pair_code_id == (if pair_code_id is Some { pair_code_id->Some_0 } else { old(deps.storage).config->Some_0.pair_code_id }),
        /*[C14 cfg.reject-no-write]*/ !is_owner(*old(deps.storage), info.sender.0@) ==> r is Err && *final(deps.storage) == *old(deps.storage),
        /*[C14,C07 cfg.frame]*/ final(deps.storage).tmp == old(deps.storage).tmp && final(deps.storage).pairs@ == old(deps.storage).pairs@ && final(deps.storage).allow@ == old(deps.storage).allow@,
        /*[C07 cfg.no-messages]*/ r is Ok ==> r->Ok_0.msgs().len() == 0,
//%end

//%fn contracts/halo-factory/src/contract.rs | - | execute_migrate_pair
//%%sig
    ensures
        /*[C14 migrate.only-owner]*/ r is Ok ==> is_owner(*old(deps.storage), info.sender.0@),
        /*[C14 migrate.reject]*/ !is_owner(*old(deps.storage), info.sender.0@) ==> r is Err,
        /*[C14,C07 migrate.no-write]*/ *final(deps.storage) == *old(deps.storage),
        /*[C07 migrate.only-migrate-msg]*/ r is Ok ==> r->Ok_0.msgs().len() == 1 && (r->Ok_0.msgs()[0] matches CosmosMsg::Wasm(WasmMsg::Migrate { contract_addr, new_code_id, msg })
            && contract_addr@ == contract@ && new_code_id == (if code_id is Some { code_id->Some_0 } else { old(deps.storage).config->Some_0.pair_code_id })),
//%end

// ---- pair creation and registration (C16) ----
impl AssetInfo {
//%fn packages/haloswap/src/asset.rs | impl AssetInfo | query_decimals
//%%sig
    ensures
        /*[C16 decimals.true-source]*/ r is Ok ==> Some(r->Ok_0) == true_decimals(querier.world(), account_addr.0@, *self),
        /*[C16 decimals.unregistered-rejected]*/ self matches AssetInfo::NativeToken { denom } ==> native_decimals_of(querier.world(), account_addr.0@, denom@) is None ==> r is Err,
//%end
}
// the decimals a pair must record: the factory's allow-list entry for a native denom, the token's own token_info for a cw20
pub open spec fn true_decimals(w: World, factory: Seq<char>, i: AssetInfo) -> Option<u8> {
    match i {
        AssetInfo::NativeToken { denom } => native_decimals_of(w, factory, denom@),
        AssetInfo::Token { contract_addr } => if w.tok_decimals.dom().contains(contract_addr@) { Some(w.tok_decimals[contract_addr@]) } else { None },
    }
}
// Decimal256 -> text -> Decimal256 (C18 is n/a): ASSUMED identity
#[verifier::external_body] pub fn decimal256_reparse(d: Decimal256) -> (r: Decimal256) ensures r == d { unimplemented!() }
pub open spec fn default_rate() -> Decimal256 { Decimal256(U256([3_000_000_000_000_000u64, 0, 0, 0])) }   // "0.003"
pub open spec fn rate_or_default(o: Option<Decimal256>) -> Decimal256 { if o is Some { o->Some_0 } else { default_rate() } }
#[verifier::external_body] pub fn default_commission_rate() -> (r: Decimal256) ensures r == default_rate() { unimplemented!() }

pub open spec fn tmp_ok(w: World, factory: Seq<char>, infos: [AssetInfo; 2], t: TmpPairInfo) -> bool {
    raw_of(infos[0], t.asset_infos[0]) && raw_of(infos[1], t.asset_infos[1])
    && t.pair_key@ == pair_key_spec(t.asset_infos[0], t.asset_infos[1])
    && Some(t.asset_decimals[0]) == true_decimals(w, factory, infos[0]) && Some(t.asset_decimals[1]) == true_decimals(w, factory, infos[1])
}
//%fn contracts/halo-factory/src/contract.rs | - | execute_create_pair
//%%rewrite #1 /commission_rate\s*\.unwrap_or_else\(\|\| Decimal256::from_str\(DEFAULT_COMMISSION_RATE\)\.unwrap\(\)\)/ => vunwrap_or_else(commission_rate, || -> (x: Decimal256) ensures x == default_rate() { default_commission_rate() }) ## R4 + text: Option::unwrap_or_else -> verified helper; parsing the literal "0.003" is text (C18 n/a) and is replaced by an assumed constant
//%%sig
    ensures
        /*[C14 create.only-owner]*/ r is Ok ==> is_owner(*old(deps.storage), info.sender.0@),
        /*[C14 create.reject-no-write]*/ !is_owner(*old(deps.storage), info.sender.0@) ==> r is Err && *final(deps.storage) == *old(deps.storage),
        /*[C16,C09,C05 create.distinct-assets]*/ r is Ok ==> !asset_infos[0].same(&asset_infos[1]),
        /*[C16 create.rate-at-most-one]*/ r is Ok ==> (commission_rate is Some ==> commission_rate->Some_0.0.v() <= dd()),
        /*[C16 create.not-registered-yet]*/ r is Ok ==> final(deps.storage).tmp is Some && !old(deps.storage).pairs@.dom().contains(final(deps.storage).tmp->Some_0.pair_key@),
        /*[C16,C17,C10 create.tmp-record]*/ r is Ok ==> final(deps.storage).tmp is Some && tmp_ok(deps.querier.world(), env.contract.address.0@, asset_infos, final(deps.storage).tmp->Some_0),
        /*[C14,C16 create.frame]*/ final(deps.storage).config == old(deps.storage).config && final(deps.storage).pairs@ == old(deps.storage).pairs@ && final(deps.storage).allow@ == old(deps.storage).allow@,
        /*[C07,C16 create.only-instantiate]*/ r is Ok ==> r->Ok_0.messages@.len() == 1 && r->Ok_0.messages@[0].reply_on == ReplyOn::Success
            && (r->Ok_0.messages@[0].msg matches CosmosMsg::Wasm(WasmMsg::Instantiate { admin, code_id, msg, funds, label }) && code_id == old(deps.storage).config->Some_0.pair_code_id && funds@.len() == 0),
        /*[C16,C17,C05,C10,C06 create.pair-told-recorded-values]*/ r is Ok ==> (r->Ok_0.messages@[0].msg matches CosmosMsg::Wasm(WasmMsg::Instantiate { admin, code_id, msg, funds, label }) &&
            msg == bin_of(PairInstantiateMsg { asset_infos, token_code_id: old(deps.storage).config->Some_0.token_code_id, asset_decimals: final(deps.storage).tmp->Some_0.asset_decimals, requirements,
                commission_rate: rate_or_default(commission_rate),
                lp_token_info: LPTokenInfo { lp_token_name: lp_token_info.lp_token_name, lp_token_symbol: lp_token_info.lp_token_symbol, lp_token_decimals: lp_token_info.lp_token_decimals } })),
//%end

pub open spec fn registered_record(w: World, t: TmpPairInfo, pair: Seq<char>, rec: PairInfoRaw) -> bool {
    let own = pair_self_report(w, pair);
    rec.asset_infos == t.asset_infos && rec.asset_decimals == t.asset_decimals
    && rec.contract_addr.0@ == canon_of(pair) && rec.liquidity_token.0@ == canon_of(own.liquidity_token@)
    && rec.requirements == own.requirements && rec.commission_rate == own.commission_rate
}
//%fn contracts/halo-factory/src/contract.rs | - | reply
//%%rewrite #? /Decimal256::from_str\(&pair_info\.commission_rate\.to_string\(\)\)\.unwrap\(\)/ => decimal256_reparse(pair_info.commission_rate) ## text: Decimal256 -> string -> Decimal256 (C18 n/a) replaced by an assumed identity
//%%sig
    ensures
        /*[C16,C17 reply.registers-under-tmp-key]*/ r is Ok ==> old(deps.storage).tmp is Some && ({
            let t = old(deps.storage).tmp->Some_0;
            final(deps.storage).pairs@.dom() == old(deps.storage).pairs@.dom().insert(t.pair_key@)
            && registered_record(deps.querier.world(), t, reply_contract_addr(msg), final(deps.storage).pairs@[t.pair_key@])
            && (forall|k: Seq<u8>| k != t.pair_key@ && #[trigger] old(deps.storage).pairs@.dom().contains(k) ==> final(deps.storage).pairs@[k] == old(deps.storage).pairs@[k]) }),
        /*[C16 reply.frame]*/ final(deps.storage).config == old(deps.storage).config && final(deps.storage).tmp == old(deps.storage).tmp && final(deps.storage).allow@ == old(deps.storage).allow@,
//%end

//%fn contracts/halo-factory/src/contract.rs | - | query_pair
//%%sig
    ensures
        /*[C16 lookup.by-key]*/ r is Ok ==> exists|r0: AssetInfoRaw, r1: AssetInfoRaw| #![trigger raw_of(asset_infos[0], r0), raw_of(asset_infos[1], r1)]
            raw_of(asset_infos[0], r0) && raw_of(asset_infos[1], r1) && deps.storage.pairs@.dom().contains(pair_key_spec(r0, r1))
            && normal_of(deps.storage.pairs@[pair_key_spec(r0, r1)], r->Ok_0),
//%end

// ---- native decimals registration (C14, C17) ----
//%fn contracts/halo-factory/src/state.rs | - | add_allow_native_token
//%%sig
    ensures
        /*[C17 allow.saved]*/ r is Ok ==> final(storage).allow@ == old(storage).allow@.insert(str_bytes(denom@), decimals),
        /*[C17 allow.frame]*/ final(storage).config == old(storage).config && final(storage).tmp == old(storage).tmp && final(storage).pairs@ == old(storage).pairs@,
        r is Err ==> final(storage).allow@ == old(storage).allow@,
//%end

pub open spec fn raw_is_native(a: AssetInfoRaw, denom: Seq<char>) -> bool { a matches AssetInfoRaw::NativeToken { denom: d } && d@ == denom }
// every record is stored under the key of its own two assets, and a pair never has the same asset twice (established by create_pair + reply)
pub open spec fn registry_wf(p: Map<Seq<u8>, PairInfoRaw>) -> bool {
    forall|k: Seq<u8>| #[trigger] p.dom().contains(k) ==> k == pair_key_spec(p[k].asset_infos[0], p[k].asset_infos[1]) && !same_id(p[k].asset_infos[0], p[k].asset_infos[1])
}
pub open spec fn dec_updated(rec: PairInfoRaw, denom: Seq<char>, d: u8, new: PairInfoRaw) -> bool {
    new.asset_infos == rec.asset_infos && new.contract_addr == rec.contract_addr && new.liquidity_token == rec.liquidity_token
    && new.requirements == rec.requirements && new.commission_rate == rec.commission_rate
    && new.asset_decimals[0] == (if raw_is_native(rec.asset_infos[0], denom) { d } else { rec.asset_decimals[0] })
    && new.asset_decimals[1] == (if raw_is_native(rec.asset_infos[1], denom) { d } else { rec.asset_decimals[1] })
}
// the message that tells a pair its new decimals array
pub open spec fn upd_msg(pair: Seq<char>, denom: Seq<char>, decs: [u8; 2], m: CosmosMsg) -> bool {
    m matches CosmosMsg::Wasm(WasmMsg::Execute { contract_addr, msg, funds }) && contract_addr@ == pair && funds@.len() == 0
        && exists|dn: String| #![trigger bin_of(haloswap::pair::ExecuteMsg::UpdateNativeTokenDecimals { denom: dn, asset_decimals: decs })]
            dn@ == denom && msg == bin_of(haloswap::pair::ExecuteMsg::UpdateNativeTokenDecimals { denom: dn, asset_decimals: decs })
}
pub open spec fn touches(rec: PairInfoRaw, denom: Seq<char>) -> bool { raw_is_native(rec.asset_infos[0], denom) || raw_is_native(rec.asset_infos[1], denom) }
// read_all_pairs: every record exactly once, mapped through to_normal (proved below from the assumed contract of Map::range)
pub open spec fn read_all_ok(p: Map<Seq<u8>, PairInfoRaw>, keys: Seq<Seq<u8>>, out: Seq<PairInfo>) -> bool {
    keys.no_duplicates() && keys.len() == out.len() && (forall|k: Seq<u8>| p.dom().contains(k) <==> keys.contains(k))
    && (forall|i: int| 0 <= i < keys.len() ==> p.dom().contains(#[trigger] keys[i]) && normal_of(p[keys[i]], out[i]))
}
//%fn contracts/halo-factory/src/state.rs | - | read_all_pairs
//%%rewrite #1 /PAIRS\s*\.range\(storage, None, None, Order::Ascending\)\s*\.map\(\|item\| ((?s:.*?))\)\s*\.collect::<StdResult<Vec<PairInfo>>>\(\)/ => { let items = PAIRS.range_all(storage); let ghost items0 = items@; let out = vtry_map_all(items, |item: StdResult<(Vec<u8>, PairInfoRaw)>| -> (o: StdResult<PairInfo>) ensures /*[C17 listing.maps-each-record]*/ o is Ok ==> item is Ok && normal_of(item->Ok_0.1, o->Ok_0) \1); proof { if out is Ok { let keys = choose|keys: Seq<Seq<u8>>| range_ok(storage.pairs@, keys, items0); assert(read_all_ok(storage.pairs@, keys, out->Ok_0@)); } } out } ## R4: Map::range(None, None, Ascending).map(f).collect::<StdResult<_>>() -> assumed complete listing `range_all` + verified helper vtry_map_all; the closure keeps its real body
//%%sig
    ensures /*[C17 listing.complete]*/ r is Ok ==> exists|keys: Seq<Seq<u8>>| read_all_ok(storage.pairs@, keys, r->Ok_0@),
//%end

//%fn contracts/halo-factory/src/contract.rs | - | execute_add_native_token_decimals
//%%rewrite #1 /for pair_info in pair_infos \{/ => for pair_info in it: pair_infos.into_iter() { ## name the loop's ghost iterator (`for x in vec` is `vec.into_iter()`)
//%%sig
    ensures
        /*[C14 decimals.only-owner]*/ r is Ok ==> is_owner(*old(deps.storage), info.sender.0@),
        /*[C14 decimals.reject-no-write]*/ !is_owner(*old(deps.storage), info.sender.0@) ==> r is Err && *final(deps.storage) == *old(deps.storage),
        /*[C17 decimals.query-updated]*/ r is Ok ==> final(deps.storage).allow@ == old(deps.storage).allow@.insert(str_bytes(denom@), decimals),
        /*[C17,C10 decimals.reaches-all]*/ r is Ok && registry_wf(old(deps.storage).pairs@) && old(deps.storage).allow@.dom().contains(str_bytes(denom@)) ==>
            final(deps.storage).pairs@.dom() == old(deps.storage).pairs@.dom()
            && (forall|k: Seq<u8>| #[trigger] old(deps.storage).pairs@.dom().contains(k) ==> dec_updated(old(deps.storage).pairs@[k], denom@, decimals, final(deps.storage).pairs@[k])),
        /*[C17,C07 decimals.first-registration-touches-nothing]*/ r is Ok && !old(deps.storage).allow@.dom().contains(str_bytes(denom@)) ==>
            final(deps.storage).pairs@ == old(deps.storage).pairs@ && r->Ok_0.msgs().len() == 0,
        /*[C14,C17 decimals.frame]*/ final(deps.storage).config == old(deps.storage).config && final(deps.storage).tmp == old(deps.storage).tmp,
//%%insert before #1 /\/\/ If the native token is already exist, then update the decimals for the existing pairs/
    let ghost p0 = deps.storage.pairs@;
    let ghost pis0 = pair_infos@;
    let ghost keys = choose|keys: Seq<Seq<u8>>| read_all_ok(p0, keys, pis0);
    let ghost wf = registry_wf(p0);
    // told[mi] = index (in the listing) of the record that message mi informs. The message obligations are carried by the loop
    // invariants decimals.loop.msg-*: every message tells a pair containing the denom exactly the array saved in its record, and every
    // such pair is told (a postcondition with the same content needs a forall-exists alternation that made the solver unstable).
    let ghost mut told: Seq<int> = Seq::empty();
//%%loop 1
            invariant 0 <= it.index@ <= pis0.len(), pis0 == pair_infos@, read_all_ok(p0, keys, pis0), wf == registry_wf(p0), is_owner(*old(deps.storage), info.sender.0@),
                deps.storage.config == old(deps.storage).config, deps.storage.tmp == old(deps.storage).tmp,
                deps.storage.allow@ == old(deps.storage).allow@.insert(str_bytes(denom@), decimals),
                /*[C17 decimals.loop.dom]*/ wf ==> deps.storage.pairs@.dom() == p0.dom(),
                /*[C17,C10 decimals.loop.done]*/ wf ==> forall|j: int| 0 <= j < it.index@ ==> dec_updated(p0[#[trigger] keys[j]], denom@, decimals, deps.storage.pairs@[keys[j]]),
                /*[C17,C07,C10 decimals.loop.msg-count]*/ wf ==> messages@.len() == told.len(),
                /*[C17,C07,C10 decimals.loop.msg-content]*/ wf ==> forall|mi: int| 0 <= mi < told.len() ==> 0 <= #[trigger] told[mi] < it.index@ && touches(p0[keys[told[mi]]], denom@)
                    && upd_msg(human_of(p0[keys[told[mi]]].contract_addr.0@), denom@, deps.storage.pairs@[keys[told[mi]]].asset_decimals, messages@[mi]),
                /*[C17,C10 decimals.loop.msg-complete]*/ wf ==> forall|j: int| 0 <= j < it.index@ && touches(p0[#[trigger] keys[j]], denom@) ==> told.contains(j),
                /*[C17 decimals.loop.todo]*/ wf ==> forall|j: int| it.index@ <= j < pis0.len() ==> deps.storage.pairs@[#[trigger] keys[j]] == p0[keys[j]],
//%%insert before #1 /\/\/ Get the pair key from the pair info/
                broadcast use {axiom_string_eq_spec, axiom_string_obeys_eq, axiom_to_string_string, group_q_errors, axiom_string_ext, axiom_str_bytes_inj};
                let ghost i = it.index@ as int;
                let ghost k_i = keys[i];
                let ghost cur0 = deps.storage.pairs@;
                let ghost told0 = told;
                proof { assert(pair_info == pis0[i]); assert(p0.dom().contains(k_i) && normal_of(p0[k_i], pis0[i])); }
//%%insert before #1 /\/\/ Get raw pair info from the pair key/
                proof { if wf { /*[C17 decimals.loop.key-of-record]*/ assert(pair_key@ == k_i); } }
//%%insert after #1 /^                \}\)\);$/
                proof { if wf { told = told.push(i); assert(told[told.len() - 1] == i); } }
//%%insert after #2 /^                \}\)\);$/
                proof { if wf { told = told.push(i); assert(told[told.len() - 1] == i); } }
//%%insert after #2 /^            \}$/
            proof {
                if wf {
                    assert forall|j: int| 0 <= j < i + 1 && touches(p0[#[trigger] keys[j]], denom@) implies told.contains(j) by {
                        if j < i {
                            assert(told0.contains(j));
                            let idx = choose|idx: int| 0 <= idx < told0.len() && told0[idx] == j;
                            assert(told[idx] == j);
                        } else {
                            assert(told.len() > told0.len());
                            assert(told[told.len() - 1] == i);
                        }
                    }
                }
            }
//%%insert before #1 /^        res = res\.add_messages\(messages\);/
        proof {
            if wf {
                assert forall|k: Seq<u8>| #[trigger] p0.dom().contains(k) implies dec_updated(p0[k], denom@, decimals, deps.storage.pairs@[k]) by {
                    assert(keys.contains(k));
                    let j = choose|j: int| 0 <= j < keys.len() && keys[j] == k;
                    assert(dec_updated(p0[keys[j]], denom@, decimals, deps.storage.pairs@[keys[j]]));
                }
            }
        }
//%end

// registry invariant is preserved by a registration whose temporary record is well-formed (C16/C17 over histories: induction step)
pub proof fn lemma_registry_wf_preserved(p: Map<Seq<u8>, PairInfoRaw>, t: TmpPairInfo, rec: PairInfoRaw)
    requires registry_wf(p), t.pair_key@ == pair_key_spec(t.asset_infos[0], t.asset_infos[1]), !same_id(t.asset_infos[0], t.asset_infos[1]), rec.asset_infos == t.asset_infos,
    ensures /*[C16,C17 registry.wf-preserved]*/ registry_wf(p.insert(t.pair_key@, rec))
{
    let q = p.insert(t.pair_key@, rec);
    assert forall|k: Seq<u8>| #[trigger] q.dom().contains(k) implies k == pair_key_spec(q[k].asset_infos[0], q[k].asset_infos[1]) && !same_id(q[k].asset_infos[0], q[k].asset_infos[1]) by {
        if k != t.pair_key@ { assert(p.dom().contains(k)); }
    }
}
// decimals updates keep the registry well-formed (asset identifiers are untouched)
pub proof fn lemma_registry_wf_after_update(p: Map<Seq<u8>, PairInfoRaw>, q: Map<Seq<u8>, PairInfoRaw>, denom: Seq<char>, d: u8)
    requires registry_wf(p), q.dom() == p.dom(), forall|k: Seq<u8>| #[trigger] p.dom().contains(k) ==> dec_updated(p[k], denom, d, q[k]),
    ensures /*[C17 registry.wf-after-update]*/ registry_wf(q)
{
    assert forall|k: Seq<u8>| #[trigger] q.dom().contains(k) implies k == pair_key_spec(q[k].asset_infos[0], q[k].asset_infos[1]) && !same_id(q[k].asset_infos[0], q[k].asset_infos[1]) by {
        assert(p.dom().contains(k));
    }
}

//%fn contracts/halo-factory/src/contract.rs | - | execute
//%%sig
    ensures
        /*[C14 fexec.only-owner]*/ r is Ok ==> is_owner(*old(deps.storage), info.sender.0@),
        /*[C14 fexec.reject-no-write]*/ !is_owner(*old(deps.storage), info.sender.0@) ==> r is Err && *final(deps.storage) == *old(deps.storage),
        /*[C14 fexec.ownership-follows]*/ msg matches ExecuteMsg::UpdateConfig { owner, token_code_id, pair_code_id } ==> r is Ok ==> final(deps.storage).config is Some
            && final(deps.storage).config->Some_0.owner.0@ == (if owner is Some { canon_of(owner->Some_0@) } else { old(deps.storage).config->Some_0.owner.0@ }),
        // the dispatcher hands every arm its own arguments: the registry guarantees of the handlers are restated at the entry point
        /*[C16,C10,C09,C05 fexec.create.checks]*/ msg matches ExecuteMsg::CreatePair { asset_infos, requirements, commission_rate, lp_token_info } ==> r is Ok ==>
            !asset_infos[0].same(&asset_infos[1]) && (commission_rate is Some ==> commission_rate->Some_0.0.v() <= dd())
            && final(deps.storage).tmp is Some && !old(deps.storage).pairs@.dom().contains(final(deps.storage).tmp->Some_0.pair_key@)
            && tmp_ok(deps.querier.world(), env.contract.address.0@, asset_infos, final(deps.storage).tmp->Some_0),
        /*[C16,C17,C05,C10,C06 fexec.create.pair-told-recorded-values]*/ msg matches ExecuteMsg::CreatePair { asset_infos, requirements, commission_rate, lp_token_info } ==> r is Ok ==>
            r->Ok_0.messages@.len() == 1 && (r->Ok_0.messages@[0].msg matches CosmosMsg::Wasm(WasmMsg::Instantiate { admin, code_id, msg, funds, label }) && funds@.len() == 0 &&
            msg == bin_of(PairInstantiateMsg { asset_infos, token_code_id: old(deps.storage).config->Some_0.token_code_id, asset_decimals: final(deps.storage).tmp->Some_0.asset_decimals, requirements,
                commission_rate: rate_or_default(commission_rate),
                lp_token_info: LPTokenInfo { lp_token_name: lp_token_info.lp_token_name, lp_token_symbol: lp_token_info.lp_token_symbol, lp_token_decimals: lp_token_info.lp_token_decimals } })),
        /*[C17 fexec.decimals.query-updated]*/ msg matches ExecuteMsg::AddNativeTokenDecimals { denom, decimals } ==> r is Ok ==> final(deps.storage).allow@ == old(deps.storage).allow@.insert(str_bytes(denom@), decimals),
        /*[C17,C10 fexec.decimals.reaches-all]*/ msg matches ExecuteMsg::AddNativeTokenDecimals { denom, decimals } ==> (r is Ok && registry_wf(old(deps.storage).pairs@) && old(deps.storage).allow@.dom().contains(str_bytes(denom@)) ==>
            final(deps.storage).pairs@.dom() == old(deps.storage).pairs@.dom()
            && (forall|k: Seq<u8>| #[trigger] old(deps.storage).pairs@.dom().contains(k) ==> dec_updated(old(deps.storage).pairs@[k], denom@, decimals, final(deps.storage).pairs@[k]))),
        /*[C14,C07 fexec.migrate.message]*/ msg matches ExecuteMsg::MigratePair { contract, code_id } ==> r is Ok ==> r->Ok_0.msgs().len() == 1
            && (r->Ok_0.msgs()[0] matches CosmosMsg::Wasm(WasmMsg::Migrate { contract_addr, new_code_id, msg }) && contract_addr@ == contract@ && new_code_id == (if code_id is Some { code_id->Some_0 } else { old(deps.storage).config->Some_0.pair_code_id })),
//%end
