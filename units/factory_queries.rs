// ===== contracts/halo-factory/src/contract.rs : instantiate, migrate and the query entry points =====
//%item packages/haloswap/src/factory.rs struct InstantiateMsg
//%item packages/haloswap/src/factory.rs struct MigrateMsg
//%item packages/haloswap/src/factory.rs struct ConfigResponse
//%item packages/haloswap/src/factory.rs struct NativeTokenDecimalsResponse
//%item packages/haloswap/src/factory.rs enum QueryMsg
pub const CONTRACT_NAME: &'static str = "crates.io:halo-factory";
pub const CONTRACT_VERSION: &'static str = "0";   // env!("CARGO_PKG_VERSION"): text only, not verified
// cw2::set_contract_version writes the version item only: ASSUMED not to touch the items modelled here
#[verifier::external_body] pub fn set_contract_version(s: &mut Storage, name: &str, version: &str) -> (r: StdResult<()>) ensures *final(s) == *old(s) { unimplemented!() }

//%fn contracts/halo-factory/src/contract.rs | - | instantiate
//%%sig
    ensures
        /*[C14 finit.owner-is-creator]*/ r is Ok ==> is_owner(*final(deps.storage), info.sender.0@),
        /*[C14 finit.code-ids]*/ r is Ok ==> final(deps.storage).config->Some_0.token_code_id == msg.token_code_id && final(deps.storage).config->Some_0.pair_code_id == msg.pair_code_id,
        /*[C14,C07 finit.no-messages]*/ r is Ok ==> r->Ok_0.msgs().len() == 0,
        /*[C14,C16 finit.frame]*/ final(deps.storage).pairs@ == old(deps.storage).pairs@ && final(deps.storage).allow@ == old(deps.storage).allow@ && final(deps.storage).tmp == old(deps.storage).tmp,
//%end

//%fn contracts/halo-factory/src/contract.rs | - | migrate
//%%sig
    ensures
        /*[C14,C07,C16,C17 fmigrate.no-write]*/ *final(deps.storage) == *old(deps.storage),
        /*[C14,C07 fmigrate.no-messages]*/ r is Ok ==> r->Ok_0.msgs().len() == 0,
//%end

//%fn contracts/halo-factory/src/contract.rs | - | query_config
//%%sig
    ensures /*[C14 fquery.config]*/ r is Ok ==> deps.storage.config is Some && ({ let c = deps.storage.config->Some_0;
        r->Ok_0.owner@ == human_of(c.owner.0@) && r->Ok_0.token_code_id == c.token_code_id && r->Ok_0.pair_code_id == c.pair_code_id }),
//%end

//%fn contracts/halo-factory/src/contract.rs | - | query_native_token_decimal
//%%sig
    ensures /*[C17,C16 fquery.native-decimals]*/ r is Ok ==> deps.storage.allow@.dom().contains(str_bytes(denom@)) && r->Ok_0.decimals == deps.storage.allow@[str_bytes(denom@)],
//%end

// what each query arm answers, as predicates over the typed answer (the dispatcher serialises exactly that answer)
pub open spec fn pair_answer(s: Storage, asset_infos: [AssetInfo; 2], a: PairInfo) -> bool {
    exists|r0: AssetInfoRaw, r1: AssetInfoRaw| #![trigger raw_of(asset_infos[0], r0), raw_of(asset_infos[1], r1)]
        raw_of(asset_infos[0], r0) && raw_of(asset_infos[1], r1) && s.pairs@.dom().contains(pair_key_spec(r0, r1)) && normal_of(s.pairs@[pair_key_spec(r0, r1)], a)
}
pub open spec fn pairs_answer(s: Storage, start_after: Option<[AssetInfo; 2]>, limit: Option<u32>, a: PairsResponse) -> bool {
    a.pairs@.len() <= 30 && (limit is None ==> a.pairs@.len() <= 10)
    && (start_after is None ==> page_ok(s.pairs@, None, page_limit(limit), a.pairs@))
    && (start_after is Some ==> exists|r0: AssetInfoRaw, r1: AssetInfoRaw| #![trigger raw_of(start_after->Some_0[0], r0), raw_of(start_after->Some_0[1], r1)]
            raw_of(start_after->Some_0[0], r0) && raw_of(start_after->Some_0[1], r1) && page_ok(s.pairs@, cursor_of(r0, r1), page_limit(limit), a.pairs@))
}
pub open spec fn decimals_answer(s: Storage, denom: Seq<char>, a: NativeTokenDecimalsResponse) -> bool {
    s.allow@.dom().contains(str_bytes(denom)) && a.decimals == s.allow@[str_bytes(denom)]
}
//%fn contracts/halo-factory/src/contract.rs | - | query
//%%sig
    ensures
        /*[C16 fquery.dispatch.pair]*/ r is Ok ==> (msg matches QueryMsg::Pair { asset_infos } ==> exists|a: PairInfo| #![trigger bin_of(a)] r->Ok_0 == bin_of(a) && pair_answer(*deps.storage, asset_infos, a)),
        /*[C19 fquery.dispatch.pairs]*/ r is Ok ==> (msg matches QueryMsg::Pairs { start_after, limit } ==> exists|a: PairsResponse| #![trigger bin_of(a)] r->Ok_0 == bin_of(a) && pairs_answer(*deps.storage, start_after, limit, a)),
        /*[C17 fquery.dispatch.native-decimals]*/ r is Ok ==> (msg matches QueryMsg::NativeTokenDecimals { denom } ==> exists|a: NativeTokenDecimalsResponse| #![trigger bin_of(a)] r->Ok_0 == bin_of(a) && decimals_answer(*deps.storage, denom@, a)),
//%end
