// ===== C18: pure lemmas about decimal numerals (digit strings, padding, trimming, splitting) =====
pub open spec fn p10n(k: nat) -> nat { vstd::arithmetic::power::pow(10, k) as nat }
pub proof fn lemma_p10_step(k: nat) ensures p10n(k + 1) == 10 * p10n(k), p10n(0) == 1, p10n(k) >= 1
{
    reveal(vstd::arithmetic::power::pow);
    vstd::arithmetic::power::lemma_pow_positive(10, k);
}
pub proof fn lemma_dval_dchar(d: nat) requires d < 10 ensures dval(dchar(d)) == d, is_digit(dchar(d)), dchar(d) != '.' {}
// the value of the canonical numeral of n is n
pub proof fn lemma_value_of_digits(n: nat)
    ensures /*[C18 text.value-of-numeral]*/ dec_value(digits(n)) == n
    decreases n
{
    if n < 10 {
        lemma_dval_dchar(n);
        let s = digits(n);
        assert(s.drop_last() =~= Seq::<char>::empty());
        assert(dec_value(s.drop_last()) == 0);
    } else {
        lemma_value_of_digits(n / 10);
        lemma_dval_dchar(n % 10);
        let s = digits(n);
        assert(s.drop_last() =~= digits(n / 10));
        assert(s.last() == dchar(n % 10));
    }
}
pub proof fn lemma_digits_no_dot(n: nat)
    ensures all_digits(digits(n)), digits(n).len() >= 1, first_idx(digits(n), '.') == digits(n).len(), n > 0 ==> digits(n)[0] != '0'
    decreases n
{
    if n < 10 { lemma_dval_dchar(n); lemma_no_dot(digits(n)); } else { lemma_digits_no_dot(n / 10); lemma_dval_dchar(n % 10); lemma_no_dot(digits(n)); }
}
// a digit string contains no '.'
pub proof fn lemma_no_dot(s: Seq<char>)
    requires all_digits(s)
    ensures first_idx(s, '.') == s.len()
    decreases s.len()
{
    if s.len() > 0 { assert(is_digit(s[0])); lemma_no_dot(s.drop_first()); }
}
// the first '.' of a ++ ['.'] ++ b (a without '.') sits right after a
pub proof fn lemma_first_dot(a: Seq<char>, b: Seq<char>)
    requires first_idx(a, '.') == a.len()
    ensures first_idx(a.push('.') + b, '.') == a.len()
    decreases a.len()
{
    let s = a.push('.') + b;
    if a.len() == 0 {
        assert(s[0] == '.');
    } else {
        assert(s[0] == a[0]);
        assert(a[0] != '.') by { if a[0] == '.' { assert(first_idx(a, '.') == 0); } }
        assert(s.drop_first() =~= a.drop_first().push('.') + b);
        lemma_first_dot(a.drop_first(), b);
    }
}
pub proof fn lemma_split_none(s: Seq<char>)
    requires first_idx(s, '.') == s.len()
    ensures split_seq(s, '.') == seq![s]
{}
pub proof fn lemma_split_one(a: Seq<char>, b: Seq<char>)
    requires first_idx(a, '.') == a.len(), first_idx(b, '.') == b.len()
    ensures split_seq(a.push('.') + b, '.') == seq![a, b]
{
    let s = a.push('.') + b;
    lemma_first_dot(a, b);
    assert(s.subrange(0, a.len() as int) =~= a);
    assert(s.subrange(a.len() as int + 1, s.len() as int) =~= b);
    lemma_split_none(b);
    assert(seq![a] + seq![b] =~= seq![a, b]);
}
// leading zeros do not change the value
pub open spec fn zeros(k: nat) -> Seq<char> { repeat_seq(seq!['0'], k) }
pub proof fn lemma_zeros(k: nat)
    ensures zeros(k).len() == k, all_digits(zeros(k)), dec_value(zeros(k)) == 0, forall|i: int| 0 <= i < k ==> zeros(k)[i] == '0'
    decreases k
{
    if k > 0 {
        lemma_zeros((k - 1) as nat);
        let z = zeros(k);
        assert(z =~= zeros((k - 1) as nat).push('0'));
        assert(z.drop_last() =~= zeros((k - 1) as nat));
    }
}
pub proof fn lemma_leading_zeros(k: nat, t: Seq<char>)
    ensures dec_value(zeros(k) + t) == dec_value(t)
    decreases t.len()
{
    lemma_zeros(k);
    if t.len() == 0 {
        assert(zeros(k) + t =~= zeros(k));
    } else {
        let s = zeros(k) + t;
        assert(s.drop_last() =~= zeros(k) + t.drop_last());
        assert(s.last() == t.last());
        lemma_leading_zeros(k, t.drop_last());
    }
}
// trimming trailing zeros divides the value by the matching power of ten, and keeps digit strings digit strings
pub proof fn lemma_trim_value(s: Seq<char>)
    requires all_digits(s)
    ensures ({ let t = trim_end(s, '0'); t.len() <= s.len() && all_digits(t) && dec_value(s) == dec_value(t) * p10n((s.len() - t.len()) as nat)
        && (dec_value(s) > 0 ==> t.len() >= 1) && t =~= s.subrange(0, t.len() as int) })
    decreases s.len()
{
    lemma_p10_step(0);
    if s.len() > 0 && s.last() == '0' {
        let d = s.drop_last();
        assert(all_digits(d)) by { assert forall|i: int| 0 <= i < d.len() implies is_digit(#[trigger] d[i]) by { assert(d[i] == s[i]); } }
        lemma_trim_value(d);
        let t = trim_end(d, '0');
        assert(trim_end(s, '0') == t);
        let j = (d.len() - t.len()) as nat;
        lemma_p10_step(j);
        assert(dec_value(s) == dec_value(d) * 10);
        assert(dec_value(t) * p10n(j) * 10 == dec_value(t) * (10 * p10n(j))) by(nonlinear_arith);
        assert(t =~= s.subrange(0, t.len() as int));
    } else {
        assert(trim_end(s, '0') == s);
        assert(dec_value(s) * 1 == dec_value(s)) by(nonlinear_arith);
        assert(s =~= s.subrange(0, s.len() as int));
    }
}
