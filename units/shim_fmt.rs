// core::fmt::Formatter as an output buffer; a write either appends or fails (then the whole formatting fails)
pub mod fmt {
    use super::*;
    pub struct Error { pub dummy: u8 }
    pub type Result = core::result::Result<(), Error>;
    pub struct Formatter { pub out: Ghost<Seq<char>> }
    impl Formatter {
//%if A
        // no-abort mode: the buffer is a String (ToString), writes to it do not fail
        #[verifier::external_body] pub fn write_str(&mut self, s: &str) -> (r: Result) ensures r is Ok, final(self).out@ == old(self).out@ + s@ { unimplemented!() }
        #[verifier::external_body] pub fn write_char(&mut self, c: char) -> (r: Result) ensures r is Ok, final(self).out@ == old(self).out@.push(c) { unimplemented!() }
        #[verifier::external_body] pub fn write_display(&mut self, spec: &str, s: &str) -> (r: Result) ensures spec@ == "{}"@ ==> r is Ok && final(self).out@ == old(self).out@ + s@ { unimplemented!() }
//%else
        // `write!(f, SPEC, x)` with ONE string argument: the plain spec "{}" writes x itself; any other format spec is not modelled (result unspecified)
        #[verifier::external_body] pub fn write_display(&mut self, spec: &str, s: &str) -> (r: Result) ensures spec@ == "{}"@ ==> (r is Ok ==> final(self).out@ == old(self).out@ + s@) && (r is Err ==> final(self).out@ == old(self).out@) { unimplemented!() }
        #[verifier::external_body] pub fn write_str(&mut self, s: &str) -> (r: Result) ensures r is Ok ==> final(self).out@ == old(self).out@ + s@, r is Err ==> final(self).out@ == old(self).out@ { unimplemented!() }
        #[verifier::external_body] pub fn write_char(&mut self, c: char) -> (r: Result) ensures r is Ok ==> final(self).out@ == old(self).out@.push(c), r is Err ==> final(self).out@ == old(self).out@ { unimplemented!() }
//%endif
    }
}
// std's blanket `impl<T: Display> ToString for T`: a fresh buffer, Display::fmt into it, panic if fmt fails, return the buffer
impl fmt::Formatter {
    #[verifier::external_body] pub fn new_buffer() -> (r: fmt::Formatter) ensures r.out@ == Seq::<char>::empty() { unimplemented!() }
//%if A
    #[verifier::external_body] pub fn finish(self, res: fmt::Result) -> (r: String) requires res is Ok ensures r@ == self.out@ { unimplemented!() }
//%else
    #[verifier::external_body] pub fn finish(self, res: fmt::Result) -> (r: String) ensures res is Ok, r@ == self.out@ { unimplemented!() }
//%endif
}
