// ===== text primitives used by packages/bignumber/src/math.rs (std / bigint): ASSUMED contracts over the character view =====
// decimal digit strings
pub open spec fn is_digit(c: char) -> bool { '0' <= c && c <= '9' }
pub open spec fn dval(c: char) -> nat { (c as u32 - '0' as u32) as nat }
pub open spec fn dchar(d: nat) -> char { if d == 0 { '0' } else if d == 1 { '1' } else if d == 2 { '2' } else if d == 3 { '3' } else if d == 4 { '4' } else if d == 5 { '5' } else if d == 6 { '6' } else if d == 7 { '7' } else if d == 8 { '8' } else { '9' } }
pub open spec fn all_digits(s: Seq<char>) -> bool { forall|i: int| 0 <= i < s.len() ==> is_digit(#[trigger] s[i]) }
// value of a digit string (the empty string has value 0, as in bigint's from_dec_str)
pub open spec fn dec_value(s: Seq<char>) -> nat decreases s.len() { if s.len() == 0 { 0 } else { dec_value(s.drop_last()) * 10 + dval(s.last()) } }
// canonical decimal numeral of n: no leading zero, "0" for zero
pub open spec fn digits(n: nat) -> Seq<char> decreases n { if n < 10 { seq![dchar(n)] } else { digits(n / 10).push(dchar(n % 10)) } }
// UTF-8 length of a text (what str::len returns): equals the character count for ASCII text
pub uninterp spec fn utf8_len(s: Seq<char>) -> nat;
pub open spec fn all_ascii(s: Seq<char>) -> bool { forall|i: int| 0 <= i < s.len() ==> (#[trigger] s[i] as u32) < 128 }
pub broadcast proof fn axiom_utf8_len_ascii(s: Seq<char>) ensures all_ascii(s) ==> #[trigger] utf8_len(s) == s.len() { admit(); }
// str::len / String::len (byte length)
#[verifier::external_body] pub fn vlen_str(s: &str) -> (r: usize) ensures r as nat == utf8_len(s@) { s.len() }
// bigint::U256::from_dec_str: every byte must be an ASCII digit; the EMPTY string is accepted as 0; overflow of 256 bits is an error
pub struct FromDecStrErr { pub dummy: u8 }
impl U256 {
    #[verifier::external_body] pub fn from_dec_str(value: &str) -> (r: Result<U256, FromDecStrErr>)
        ensures r is Ok <==> (all_digits(value@) && dec_value(value@) < p256()), r is Ok ==> r->Ok_0.v() == dec_value(value@) { unimplemented!() }
    // Display of U256: the canonical decimal numeral
    #[verifier::external_body] pub fn to_string(&self) -> (r: String) ensures r@ == digits(self.v()) { unimplemented!() }
    // U256::pow(exp): aborts on overflow
    #[verifier::external_body] pub fn pow(self, exp: U256) -> (r: U256)
//%if A
        requires vstd::arithmetic::power::pow(self.v() as int, exp.v()) < p256()
        ensures r.v() == vstd::arithmetic::power::pow(self.v() as int, exp.v())
//%else
        ensures vstd::arithmetic::power::pow(self.v() as int, exp.v()) < p256(), r.v() == vstd::arithmetic::power::pow(self.v() as int, exp.v())
//%endif
    { unimplemented!() }
}
impl From<i32> for U256 { #[verifier::external_body] fn from(x: i32) -> (r: U256) ensures x >= 0, r.v() == x as nat { unimplemented!() } }
impl From<usize> for U256 { #[verifier::external_body] fn from(x: usize) -> (r: U256) ensures r.v() == x as nat { unimplemented!() } }
// std string helpers
pub open spec fn repeat_seq(s: Seq<char>, n: nat) -> Seq<char> decreases n { if n == 0 { Seq::empty() } else { repeat_seq(s, (n - 1) as nat) + s } }
pub assume_specification[ str::repeat ](s: &str, n: usize) -> (r: String) ensures r@ == repeat_seq(s@, n as nat);
pub open spec fn trim_end(s: Seq<char>, c: char) -> Seq<char> decreases s.len() { if s.len() > 0 && s.last() == c { trim_end(s.drop_last(), c) } else { s } }
// index of the first `c` in s (s.len() when absent); "a.b.c".split('.') = ["a","b","c"], "".split('.') = [""]
pub open spec fn first_idx(s: Seq<char>, c: char) -> int decreases s.len() { if s.len() == 0 { 0 } else if s[0] == c { 0 } else { 1 + first_idx(s.drop_first(), c) } }
pub open spec fn split_seq(s: Seq<char>, c: char) -> Seq<Seq<char>> decreases s.len() {
    let i = first_idx(s, c);
    if 0 <= i < s.len() { seq![s.subrange(0, i)] + split_seq(s.subrange(i + 1, s.len() as int), c) } else { seq![s] }
}
// str::split(c).collect::<Vec<&str>>()
#[verifier::external_body] pub fn vsplit_collect<'a>(s: &'a str, c: char) -> (r: Vec<&'a str>)
    ensures r@.len() == split_seq(s@, c).len(), forall|i: int| 0 <= i < r@.len() ==> (#[trigger] r@[i])@ == split_seq(s@, c)[i] { unimplemented!() }
#[verifier::external_body] pub fn vtrim_end_matches<'a>(s: &'a str, c: char) -> (r: &'a str) ensures r@ == trim_end(s@, c) { unimplemented!() }
// str::trim_end_matches with a `char` pattern (any other pattern: unspecified)
pub uninterp spec fn pat_char<P>(p: P) -> Option<char>;
pub broadcast proof fn axiom_pat_char(c: char) ensures #[trigger] pat_char::<char>(c) == Some(c) { admit(); }
#[verifier::allow(undeclared_external_trait)]
pub assume_specification<'a, P: core::str::pattern::Pattern>[ str::trim_end_matches ](s: &'a str, p: P) -> (r: &'a str)
    where for<'b> P::Searcher<'b>: core::str::pattern::ReverseSearcher<'b>,
    ensures pat_char(p) is Some ==> r@ == trim_end(s@, pat_char(p)->Some_0);
#[verifier::external_body] pub fn vconcat(a: String, b: &str) -> (r: String) ensures r@ == a@ + b@ { unimplemented!() }
// serde: only the two primitives the repository's impls call -- ASSUMED shapes (serde 1.x)
pub mod ser {
    use super::*;
    pub trait Serializer: Sized {
        type Ok;
        type Error;
        spec fn str_result(self, v: Seq<char>) -> Result<Self::Ok, Self::Error>;   // what serialising the string v produces
        fn serialize_str(self, v: &str) -> (r: Result<Self::Ok, Self::Error>) ensures r == self.str_result(v@);
    }
}
pub mod de {
    use super::*;
    pub trait Error: Sized { fn custom(msg: String) -> Self; }
}
