// ===== packages/haloswap/src/factory.rs : message types =====
//%item packages/haloswap/src/factory.rs enum ExecuteMsg
