// ===== ledger composition: what the messages pinned by the handler contracts do to balances =====
// CHAIN SPECIFICATION (assumed, not repository code): a plain transfer of `amount` of asset `info` from `from` to `to`
// (BankMsg::Send for a native denom / cw20 Transfer, TransferFrom or the transfer half of Send for a token) succeeds iff the
// amount is positive and covered, and then moves exactly that amount between exactly those two balances; cw20 Mint / Burn change
// one balance and the supply by the amount. Everything proved below is a consequence of that specification and of the predicates
// the real handlers are proved to satisfy (swap_settles, withdraw_pays, provide_ok, ...).
pub open spec fn can_move(w: World, info: AssetInfo, from: Seq<char>, amount: nat) -> bool { amount > 0 && balance_of(w, info, from) >= amount }
pub open spec fn moved(w: World, info: AssetInfo, from: Seq<char>, to: Seq<char>, amount: nat) -> World {
    match info {
        AssetInfo::NativeToken { denom } => {
            let b1 = w.bank.insert((from, denom@), (w.bank_bal(from, denom@) - amount) as nat);
            World { bank: b1.insert((to, denom@), (if b1.dom().contains((to, denom@)) { b1[(to, denom@)] } else { 0 }) + amount), ..w }
        },
        AssetInfo::Token { contract_addr } => {
            let c1 = w.cw20.insert((contract_addr@, from), (w.tok_bal(contract_addr@, from) - amount) as nat);
            World { cw20: c1.insert((contract_addr@, to), (if c1.dom().contains((contract_addr@, to)) { c1[(contract_addr@, to)] } else { 0 }) + amount), ..w }
        },
    }
}
pub open spec fn burned(w: World, token: Seq<char>, holder: Seq<char>, amount: nat) -> World {
    World { cw20: w.cw20.insert((token, holder), (w.tok_bal(token, holder) - amount) as nat), supply: w.supply.insert(token, (w.tok_supply(token) - amount) as nat), ..w }
}
pub open spec fn minted(w: World, token: Seq<char>, to: Seq<char>, amount: nat) -> World {
    World { cw20: w.cw20.insert((token, to), w.tok_bal(token, to) + amount), supply: w.supply.insert(token, w.tok_supply(token) + amount), ..w }
}
// two asset descriptors denote different ledger entries
pub open spec fn distinct_assets(a: AssetInfo, b: AssetInfo) -> bool { !a.same(&b) }

// the basic facts about one transfer: exactly two balances of exactly one asset change, by exactly the amount
pub proof fn lemma_moved(w: World, info: AssetInfo, from: Seq<char>, to: Seq<char>, amount: nat, other: AssetInfo, who: Seq<char>)
    requires balance_of(w, info, from) >= amount, from != to
    ensures
        /*[C07,C02 ledger.move.debits-sender]*/ balance_of(moved(w, info, from, to, amount), info, from) == balance_of(w, info, from) - amount,
        /*[C07,C02 ledger.move.credits-receiver]*/ balance_of(moved(w, info, from, to, amount), info, to) == balance_of(w, info, to) + amount,
        /*[C07 ledger.move.frame-holders]*/ who != from && who != to ==> balance_of(moved(w, info, from, to, amount), info, who) == balance_of(w, info, who),
        /*[C07 ledger.move.frame-assets]*/ distinct_assets(info, other) ==> balance_of(moved(w, info, from, to, amount), other, who) == balance_of(w, other, who),
        /*[C07 ledger.move.supply-unchanged]*/ moved(w, info, from, to, amount).supply == w.supply,
{
}

// ---- C02 / C01 / C12: a swap as a whole transaction ----
// w0: ledger before the transaction; the trader's offer `a` of asset `oi` is delivered to the pair (attached funds / cw20 Send);
// then the handler runs in w1 and its single message (if any) is executed.
pub proof fn lemma_swap_transaction(w0: World, pair: Seq<char>, trader: Seq<char>, recv: Seq<char>, oi: AssetInfo, ai: AssetInfo, a: nat, n: nat)
    requires distinct_assets(oi, ai), trader != pair, recv != pair, balance_of(w0, oi, trader) >= a,
        ({ let w1 = moved(w0, oi, trader, pair, a); n <= balance_of(w1, ai, pair) })
    ensures ({
        let w1 = moved(w0, oi, trader, pair, a);
        let w2 = if n > 0 { moved(w1, ai, pair, recv, n) } else { w1 };
        /*[C12,C01 ledger.swap.priced-on-pre-deposit-reserve]*/ balance_of(w1, oi, pair) - a == balance_of(w0, oi, pair) && balance_of(w1, ai, pair) == balance_of(w0, ai, pair)
        /*[C02 ledger.swap.offer-reserve-rises-by-offer]*/ && balance_of(w2, oi, pair) == balance_of(w0, oi, pair) + a
        /*[C02 ledger.swap.ask-reserve-falls-by-return]*/ && balance_of(w2, ai, pair) == balance_of(w0, ai, pair) - n
        /*[C02 ledger.swap.receiver-gains-return]*/ && balance_of(w2, ai, recv) == balance_of(w0, ai, recv) + n + (if recv == trader { 0int } else { 0int })
    }),
{
    let w1 = moved(w0, oi, trader, pair, a);
    lemma_moved(w0, oi, trader, pair, a, ai, pair);
    lemma_moved(w0, oi, trader, pair, a, ai, recv);
    if n > 0 {
        lemma_moved(w1, ai, pair, recv, n, oi, pair);
    }
}
// the reserve product after the transaction, from the handler's own arithmetic postcondition (outside the recorded window)
pub proof fn lemma_swap_product(x: nat, y: nat, a: nat, n: nat)
    requires c01_no_overpay(x, y, a, n)
    ensures /*[C01 ledger.swap.product-not-lower]*/ (x + a) * (y - n) >= x * y, /*[C01 ledger.swap.ask-reserve-positive]*/ y > 0 ==> y - n > 0
{}

// cw20-level movement by token address (used for the LP token, for which no AssetInfo value is at hand in spec code)
pub open spec fn tok_moved(w: World, token: Seq<char>, from: Seq<char>, to: Seq<char>, amount: nat) -> World {
    let c1 = w.cw20.insert((token, from), (w.tok_bal(token, from) - amount) as nat);
    World { cw20: c1.insert((token, to), (if c1.dom().contains((token, to)) { c1[(token, to)] } else { 0 }) + amount), ..w }
}
pub open spec fn not_token(i: AssetInfo, token: Seq<char>) -> bool { !(i matches AssetInfo::Token { contract_addr } && contract_addr@ == token) }
pub proof fn lemma_tok_moved(w: World, token: Seq<char>, from: Seq<char>, to: Seq<char>, amount: nat, other: AssetInfo, who: Seq<char>)
    requires w.tok_bal(token, from) >= amount, from != to
    ensures
        tok_moved(w, token, from, to, amount).tok_bal(token, from) == w.tok_bal(token, from) - amount,
        tok_moved(w, token, from, to, amount).tok_bal(token, to) == w.tok_bal(token, to) + amount,
        who != from && who != to ==> tok_moved(w, token, from, to, amount).tok_bal(token, who) == w.tok_bal(token, who),
        not_token(other, token) ==> balance_of(tok_moved(w, token, from, to, amount), other, who) == balance_of(w, other, who),
        tok_moved(w, token, from, to, amount).supply == w.supply,
{
}
pub proof fn lemma_moved_keeps_token(w: World, info: AssetInfo, from: Seq<char>, to: Seq<char>, amount: nat, token: Seq<char>, who: Seq<char>)
    requires not_token(info, token)
    ensures moved(w, info, from, to, amount).tok_bal(token, who) == w.tok_bal(token, who), moved(w, info, from, to, amount).tok_supply(token) == w.tok_supply(token)
{
}
pub proof fn lemma_burned(w: World, token: Seq<char>, holder: Seq<char>, amount: nat, other: AssetInfo, who: Seq<char>)
    requires w.tok_bal(token, holder) >= amount, w.tok_supply(token) >= amount
    ensures
        /*[C04,C07 ledger.burn.supply]*/ burned(w, token, holder, amount).tok_supply(token) == w.tok_supply(token) - amount,
        /*[C04,C07 ledger.burn.holder]*/ burned(w, token, holder, amount).tok_bal(token, holder) == w.tok_bal(token, holder) - amount,
        who != holder ==> burned(w, token, holder, amount).tok_bal(token, who) == w.tok_bal(token, who),
        /*[C07 ledger.burn.frame]*/ not_token(other, token) ==> balance_of(burned(w, token, holder, amount), other, who) == balance_of(w, other, who),
{
}
pub proof fn lemma_minted(w: World, token: Seq<char>, to: Seq<char>, amount: nat, other: AssetInfo, who: Seq<char>)
    ensures
        /*[C05,C07 ledger.mint.supply]*/ minted(w, token, to, amount).tok_supply(token) == w.tok_supply(token) + amount,
        /*[C05,C07 ledger.mint.recipient]*/ minted(w, token, to, amount).tok_bal(token, to) == w.tok_bal(token, to) + amount,
        who != to ==> minted(w, token, to, amount).tok_bal(token, who) == w.tok_bal(token, who),
        /*[C07 ledger.mint.frame]*/ not_token(other, token) ==> balance_of(minted(w, token, to, amount), other, who) == balance_of(w, other, who),
{
}

// ---- C04: a withdrawal as a whole transaction ----
// w0: ledger before; cw20 Send moves `a` LP tokens from the holder to the pair and calls the hook; the handler's three messages
// (refund x0 of i0, refund x1 of i1, burn a) are executed in order.
pub proof fn lemma_withdraw_transaction(w0: World, pair: Seq<char>, holder: Seq<char>, lp: Seq<char>, i0: AssetInfo, i1: AssetInfo, a: nat, x0: nat, x1: nat)
    requires distinct_assets(i0, i1), holder != pair, w0.tok_bal(lp, holder) >= a, w0.tok_supply(lp) >= w0.tok_bal(lp, pair) + a,
        not_token(i0, lp), not_token(i1, lp), x0 <= balance_of(w0, i0, pair), x1 <= balance_of(w0, i1, pair),
    ensures ({
        let w1 = tok_moved(w0, lp, holder, pair, a);
        let w2 = if x0 > 0 { moved(w1, i0, pair, holder, x0) } else { w1 };
        let w3 = if x1 > 0 { moved(w2, i1, pair, holder, x1) } else { w2 };
        let w4 = burned(w3, lp, pair, a);
        /*[C04 ledger.withdraw.supply-falls-by-a]*/ w4.tok_supply(lp) == w0.tok_supply(lp) - a
        /*[C04 ledger.withdraw.holder-lp-falls-by-a]*/ && w4.tok_bal(lp, holder) == w0.tok_bal(lp, holder) - a
        /*[C04 ledger.withdraw.pair-keeps-no-lp]*/ && w4.tok_bal(lp, pair) == w0.tok_bal(lp, pair)
        /*[C04 ledger.withdraw.holder-gets-refunds]*/ && balance_of(w4, i0, holder) == balance_of(w0, i0, holder) + x0 && balance_of(w4, i1, holder) == balance_of(w0, i1, holder) + x1
        /*[C04,C03 ledger.withdraw.reserves-fall-by-refunds]*/ && balance_of(w4, i0, pair) == balance_of(w0, i0, pair) - x0 && balance_of(w4, i1, pair) == balance_of(w0, i1, pair) - x1
    }),
{
    let w1 = tok_moved(w0, lp, holder, pair, a);
    lemma_tok_moved(w0, lp, holder, pair, a, i0, pair); lemma_tok_moved(w0, lp, holder, pair, a, i0, holder);
    lemma_tok_moved(w0, lp, holder, pair, a, i1, pair); lemma_tok_moved(w0, lp, holder, pair, a, i1, holder);
    let w2 = if x0 > 0 { moved(w1, i0, pair, holder, x0) } else { w1 };
    if x0 > 0 {
        lemma_moved(w1, i0, pair, holder, x0, i1, pair); lemma_moved(w1, i0, pair, holder, x0, i1, holder);
        lemma_moved_keeps_token(w1, i0, pair, holder, x0, lp, pair); lemma_moved_keeps_token(w1, i0, pair, holder, x0, lp, holder);
    }
    let w3 = if x1 > 0 { moved(w2, i1, pair, holder, x1) } else { w2 };
    if x1 > 0 {
        lemma_moved(w2, i1, pair, holder, x1, i0, pair); lemma_moved(w2, i1, pair, holder, x1, i0, holder);
        lemma_moved_keeps_token(w2, i1, pair, holder, x1, lp, pair); lemma_moved_keeps_token(w2, i1, pair, holder, x1, lp, holder);
    }
    lemma_burned(w3, lp, pair, a, i0, pair); lemma_burned(w3, lp, pair, a, i0, holder);
    lemma_burned(w3, lp, pair, a, i1, pair); lemma_burned(w3, lp, pair, a, i1, holder);
}

// ---- C05: a provision on a pair with positive supply as a whole transaction ----
// natives arrive with the message (attached == declared, proved), cw20 deposits are pulled by TransferFrom(owner = caller); then `m` LP are minted to recv
pub proof fn lemma_provide_transaction(w0: World, pair: Seq<char>, caller: Seq<char>, recv: Seq<char>, lp: Seq<char>, i0: AssetInfo, i1: AssetInfo, d0: nat, d1: nat, m: nat)
    requires distinct_assets(i0, i1), caller != pair, not_token(i0, lp), not_token(i1, lp), balance_of(w0, i0, caller) >= d0, balance_of(w0, i1, caller) >= d1,
    ensures ({
        let w1 = if d0 > 0 { moved(w0, i0, caller, pair, d0) } else { w0 };
        let w2 = if d1 > 0 { moved(w1, i1, caller, pair, d1) } else { w1 };
        let w3 = minted(w2, lp, recv, m);
        /*[C05 ledger.provide.reserves-rise-by-deposits]*/ balance_of(w3, i0, pair) == balance_of(w0, i0, pair) + d0 && balance_of(w3, i1, pair) == balance_of(w0, i1, pair) + d1
        /*[C05,C07 ledger.provide.caller-pays-deposits]*/ && balance_of(w3, i0, caller) == balance_of(w0, i0, caller) - d0 && balance_of(w3, i1, caller) == balance_of(w0, i1, caller) - d1
        /*[C05 ledger.provide.supply-and-receiver-grow-by-m]*/ && w3.tok_supply(lp) == w0.tok_supply(lp) + m && w3.tok_bal(lp, recv) == w0.tok_bal(lp, recv) + m
    }),
{
    let w1 = if d0 > 0 { moved(w0, i0, caller, pair, d0) } else { w0 };
    if d0 > 0 {
        lemma_moved(w0, i0, caller, pair, d0, i1, pair); lemma_moved(w0, i0, caller, pair, d0, i1, caller);
        lemma_moved_keeps_token(w0, i0, caller, pair, d0, lp, recv);
    }
    let w2 = if d1 > 0 { moved(w1, i1, caller, pair, d1) } else { w1 };
    if d1 > 0 {
        lemma_moved(w1, i1, caller, pair, d1, i0, pair); lemma_moved(w1, i1, caller, pair, d1, i0, caller);
        lemma_moved_keeps_token(w1, i1, caller, pair, d1, lp, recv);
    }
    lemma_minted(w2, lp, recv, m, i0, pair); lemma_minted(w2, lp, recv, m, i0, caller);
    lemma_minted(w2, lp, recv, m, i1, pair); lemma_minted(w2, lp, recv, m, i1, caller);
}
