// unit: text -- Decimal256 / Uint256 text conversions (C18)
#![feature(pattern)]
use vstd::prelude::*;
use vstd::std_specs::ops::*;
use vstd::std_specs::cmp::*;
use vstd::std_specs::convert::*;
use vstd::arithmetic::div_mod::*;
use vstd::arithmetic::mul::*;
use core::cmp::Ordering;
use core::ops;
verus! {
//%include common.rs
pub mod shim {
use super::*;
//%include shim_u256.rs
//%include shim_uint128.rs
//%include shim_cw.rs
//%include helpers.rs
//%include shim_fmt.rs
//%include shim_text.rs
}
pub use shim::*;
pub mod math {
use super::*;
#[allow(unused_imports)] use super::shim::Decimal;
//%include math.rs
//%include math_decimal_conv.rs
}
pub use math::*;
pub mod mlem {
use super::*;
#[allow(unused_imports)] use super::shim::Decimal;
//%include mlem_math.rs
}
pub use mlem::*;
pub mod text {
use super::*;
#[allow(unused_imports)] use super::shim::Decimal;
//%include mlem_text.rs
//%include math_text.rs
}
} // verus!
fn main() {}
