// ===== packages/haloswap/src/pair.rs : messages the factory sends to a pair =====
//%item packages/haloswap/src/pair.rs struct InstantiateMsg
//%item packages/haloswap/src/pair.rs struct MigrateMsg
//%item packages/haloswap/src/pair.rs enum ExecuteMsg
//%item packages/haloswap/src/pair.rs enum QueryMsg
//%item packages/haloswap/src/pair.rs struct SimulationResponse
//%item packages/haloswap/src/pair.rs struct ReverseSimulationResponse
