// ===== packages/haloswap/src/formulas.rs : swap pricing (function text extracted from /repo) =====
broadcast use {shim::axiom_u256_into_self, shim::axiom_u256_into_obeys, shim::axiom_u256_bound, math::axiom_uint256_into_self, math::axiom_uint256_into_obeys, vstd::arithmetic::mul::lemma_mul_is_commutative};

//%fn packages/haloswap/src/formulas.rs | - | compute_swap
//%%sig
    ensures
        /*[C06,C10,C12 swap.pinned]*/ swap_pinned(offer_pool.0 as nat, ask_pool.0 as nat, offer_amount.0 as nat, commission_rate.0.v(), r.0.0 as nat, r.1.0 as nat, r.2.0 as nat),
        /*[C06,C10,C12 swap.sum]*/ c06_sum(offer_pool.0 as nat, ask_pool.0 as nat, offer_amount.0 as nat, r.0.0 as nat, r.1.0 as nat, r.2.0 as nat),
        /*[C06 swap.commission-base]*/ c06_commission(commission_rate.0.v(), r.0.0 as nat, r.2.0 as nat),
        /*[C06 swap.bound-lower]*/ c06_lower(offer_pool.0 as nat, ask_pool.0 as nat, offer_amount.0 as nat, commission_rate.0.v(), r.0.0 as nat),
        /*[C06 swap.bound-upper]*/ c06_upper(offer_pool.0 as nat, ask_pool.0 as nat, offer_amount.0 as nat, commission_rate.0.v(), r.0.0 as nat),
        /*[C01,C03 swap.no-overpay]*/ sw_window(offer_pool.0 as nat, ask_pool.0 as nat, offer_amount.0 as nat) || c01_no_overpay(offer_pool.0 as nat, ask_pool.0 as nat, offer_amount.0 as nat, r.0.0 as nat),
        /*[C01,C03 swap.window-bound]*/ c01_window_bound(offer_pool.0 as nat, ask_pool.0 as nat, offer_amount.0 as nat, r.0.0 as nat),
//%%insert before #1 /^\s*\($/
    proof {
        let x = offer_pool.0.v(); let y = ask_pool.0.v(); let a = offer_amount.0.v(); let cr = commission_rate.0.v();
        mlem::lemma_swap_props(x, y, a, cr);
        mlem::lemma_swap_post(x, y, a, return_amount.0.v());
    }
//%end
