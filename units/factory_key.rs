// ===== contracts/halo-factory/src/state.rs : pair_key (function text extracted from /repo) =====
// --- byte-level std facts: ASSUMED ---
pub uninterp spec fn str_bytes(s: Seq<char>) -> Seq<u8>;     // UTF-8 encoding of a string
pub assume_specification[ String::as_bytes ](s: &String) -> (r: &[u8]) ensures r@ == str_bytes(s@);
pub broadcast proof fn axiom_str_bytes_inj(a: Seq<char>, b: Seq<char>) ensures (#[trigger] str_bytes(a) == #[trigger] str_bytes(b)) ==> a == b { admit(); }
pub open spec fn lex_lt(a: Seq<u8>, b: Seq<u8>) -> bool decreases a.len() {
    if b.len() == 0 { false } else if a.len() == 0 { true } else if a[0] != b[0] { a[0] < b[0] } else { lex_lt(a.drop_first(), b.drop_first()) }
}
pub open spec fn lex_cmp(a: Seq<u8>, b: Seq<u8>) -> Ordering { if a == b { Ordering::Equal } else if lex_lt(a, b) { Ordering::Less } else { Ordering::Greater } }
pub uninterp spec fn slice_cmp_spec<T>(a: Seq<T>, b: Seq<T>) -> Ordering;
pub assume_specification<T: Ord>[ <[T] as Ord>::cmp ](a: &[T], b: &[T]) -> (o: Ordering) ensures o == slice_cmp_spec::<T>(a@, b@);
pub broadcast proof fn axiom_slice_cmp_u8(a: Seq<u8>, b: Seq<u8>) ensures #[trigger] slice_cmp_spec::<u8>(a, b) == lex_cmp(a, b) { admit(); }
pub assume_specification[ core::cmp::Ordering::then ](a: Ordering, b: Ordering) -> (r: Ordering) ensures r == (if a is Equal { b } else { a });
pub open spec fn bool_cmp(a: bool, b: bool) -> Ordering { if a == b { Ordering::Equal } else if !a { Ordering::Less } else { Ordering::Greater } }
pub assume_specification[ <bool as Ord>::cmp ](a: &bool, b: &bool) -> (r: Ordering) ensures r == bool_cmp(*a, *b);
pub uninterp spec fn be8(x: u64) -> Seq<u8>;                 // big-endian bytes of a u64
#[verifier::external_body] pub fn u64_to_be_bytes(x: u64) -> (r: [u8; 8]) ensures r@ == be8(x) { x.to_be_bytes() }   // stands for u64::to_be_bytes (its return type is not nameable in an assume_specification)
pub broadcast proof fn axiom_be8(x: u64, y: u64) ensures #[trigger] be8(x).len() == 8, (be8(x) == #[trigger] be8(y)) ==> x == y { admit(); }

// --- R4 helpers (verified) ---
pub fn vec2_clone(a: &[AssetInfoRaw; 2]) -> (r: Vec<AssetInfoRaw>) ensures r@.len() == 2, r@[0] == a[0], r@[1] == a[1] {
    let mut v: Vec<AssetInfoRaw> = Vec::new();
    v.push(a[0].clone());
    v.push(a[1].clone());
    v
}
// slice::sort_by on two elements: stable, swaps only when the second compares Less than the first
pub fn vsort2_by<F: Fn(&AssetInfoRaw, &AssetInfoRaw) -> Ordering>(v: &mut Vec<AssetInfoRaw>, f: F)
    requires old(v)@.len() == 2, forall|x: &AssetInfoRaw, y: &AssetInfoRaw| f.requires((x, y)),
    ensures final(v)@.len() == 2,
        exists|o: Ordering| #![trigger f.ensures((&old(v)@[1], &old(v)@[0]), o)] f.ensures((&old(v)@[1], &old(v)@[0]), o)
            && (o is Less ==> final(v)@[0] == old(v)@[1] && final(v)@[1] == old(v)@[0])
            && (!(o is Less) ==> final(v)@ == old(v)@),
{
    let o = f(&v[1], &v[0]);
    if let Ordering::Less = o {
        let b = v.pop().unwrap();
        let a = v.pop().unwrap();
        v.push(b);
        v.push(a);
        assert(v@.len() == 2 && v@[0] == old(v)@[1] && v@[1] == old(v)@[0]);
    } else {
        assert(v@ == old(v)@);
    }
}

// --- spec of the key ---
pub open spec fn raw_bytes(a: AssetInfoRaw) -> Seq<u8> { match a { AssetInfoRaw::NativeToken { denom } => str_bytes(denom@), AssetInfoRaw::Token { contract_addr } => contract_addr.0@ } }
pub open spec fn raw_native(a: AssetInfoRaw) -> bool { a is NativeToken }
pub open spec fn key_order(a: AssetInfoRaw, b: AssetInfoRaw) -> Ordering { if lex_cmp(raw_bytes(a), raw_bytes(b)) is Equal { bool_cmp(raw_native(a), raw_native(b)) } else { lex_cmp(raw_bytes(a), raw_bytes(b)) } }
pub open spec fn tag_of(a: AssetInfoRaw) -> u8 { if raw_native(a) { 1u8 } else { 0u8 } }
pub open spec fn key_of(lo: AssetInfoRaw, hi: AssetInfoRaw) -> Seq<u8> {
    seq![tag_of(lo)] + be8(raw_bytes(lo).len() as u64) + raw_bytes(lo) + seq![tag_of(hi)] + raw_bytes(hi)
}
pub open spec fn pair_key_spec(a: AssetInfoRaw, b: AssetInfoRaw) -> Seq<u8> { if key_order(b, a) is Less { key_of(b, a) } else { key_of(a, b) } }

impl AssetInfoRaw {
//%fn packages/haloswap/src/asset.rs | impl AssetInfoRaw | as_bytes
//%%sig
    ensures /*[C16 raw.as_bytes]*/ r@ == raw_bytes(*self),
//%end
}

//%fn contracts/halo-factory/src/state.rs | - | pair_key
//%%rewrite #1 /asset_infos\.to_vec\(\)/ => vec2_clone(asset_infos) ## R4: [T;2]::to_vec -> verified helper
//%%rewrite #1 /asset_infos\.sort_by\(\|a, b\| \{((?s:.*?))\}\);/ => vsort2_by(&mut asset_infos, |a: &AssetInfoRaw, b: &AssetInfoRaw| -> (o: Ordering) ensures o == key_order(*a, *b) {\1}); ## R4: slice::sort_by on a 2-element Vec -> verified helper; the comparator closure is annotated with the order it must implement and verified against its real body
//%%rewrite #1 /\(([A-Za-z_][A-Za-z0-9_\.\[\]]*\.len\(\)) as u64\)\.to_be_bytes\(\)/ => u64_to_be_bytes(\1 as u64) ## shim: u64::to_be_bytes through a named wrapper carrying its assumed contract
//%%sig
    ensures
        /*[C16 key.encoding]*/ r@ == pair_key_spec(asset_infos[0], asset_infos[1]),
//%%head
    broadcast use {axiom_slice_cmp_u8, axiom_be8};
    let ghost a0 = asset_infos[0]; let ghost a1 = asset_infos[1];
//%%insert before #1 /^    key$/
    proof {
        let lo = asset_infos@[0]; let hi = asset_infos@[1];
        /*[C16 key.bytes]*/ assert(key@ =~= key_of(lo, hi));
        /*[C16 key.sorted]*/ assert(key_of(lo, hi) == pair_key_spec(a0, a1));
    }
//%end
