// ===== contracts/halo-pair/src/contract.rs : handlers (function text extracted from /repo) =====
// what a successful swap does, stated from C02/C01: priced on (reserve before the deposit, other reserve), pays exactly n to recv
pub open spec fn swap_settles(w: World, pair: Seq<char>, i0: AssetInfo, i1: AssetInfo, rate: nat, offer: Asset, recv: Seq<char>, msgs: Seq<CosmosMsg>) -> bool {
    (offer.info.same(&i0) || offer.info.same(&i1)) && ({
        let oi = if offer.info.same(&i0) { i0 } else { i1 };
        let ai = if offer.info.same(&i0) { i1 } else { i0 };
        let a = offer.amount.0 as nat; let bo = balance_of(w, oi, pair); let y = balance_of(w, ai, pair);
        bo >= a && ({
            let x = (bo - a) as nat; let n = sw_n(x, y, a, rate);
            x > 0 && n < p128()
            && (n > 0 ==> msgs.len() == 1 && pay_msg(ai, Uint128(n as u128), recv, msgs[0]))
            && (n == 0 ==> msgs.len() == 0)
        })
    })
}

// C10 at the call site: the guard sees (offer, return, spread) of THIS swap with the decimals of (offer asset, ask asset) in that order
pub open spec fn swap_guarded(w: World, pair: Seq<char>, i0: AssetInfo, i1: AssetInfo, dec: [u8; 2], rate: nat, offer: Asset, bp: Option<Decimal>, ms: Option<Decimal>) -> bool {
    (offer.info.same(&i0) || offer.info.same(&i1)) && ({
        let first = offer.info.same(&i0);
        let oi = if first { i0 } else { i1 }; let ai = if first { i1 } else { i0 };
        let od = if first { dec[0] } else { dec[1] }; let ad = if first { dec[1] } else { dec[0] };
        let a = offer.amount.0 as nat; let bo = balance_of(w, oi, pair); let y = balance_of(w, ai, pair);
        bo >= a && ({
            let x = (bo - a) as nat;
            !guard_rejects(bp, ms, norm_offer(od, ad, a), norm_ret(od, ad, sw_n(x, y, a, rate)), norm_ret(od, ad, (sw_ideal(x, y, a) - sw_gross(x, y, a)) as nat))
        })
    })
}

//%fn contracts/halo-pair/src/contract.rs | - | swap
//%%rewrite #? /to\.unwrap_or_else\(\|\| sender\.clone\(\)\)/ => vunwrap_or_else(to, || -> (x: Addr) ensures x == sender { sender.clone() }) ## R4: Option::unwrap_or_else -> verified helper; closure annotated with its own (verified) ensures
//%%sig
    ensures
        /*[C02,C01,C03,C07,C12,C06,C13 swap.settles]*/ r is Ok ==> old(deps.storage).pair_info is Some && old(deps.storage).commission is Some && ({
            let pi = old(deps.storage).pair_info->Some_0;
            exists|i0: AssetInfo, i1: AssetInfo| #![trigger raw_of(i0, pi.asset_infos[0]), raw_of(i1, pi.asset_infos[1])] raw_of(i0, pi.asset_infos[0]) && raw_of(i1, pi.asset_infos[1])
                && swap_settles(deps.querier.world(), env.contract.address.0@, i0, i1, old(deps.storage).commission->Some_0.0.v(), offer_asset,
                    (if to is Some { to->Some_0.0@ } else { sender.0@ }), r->Ok_0.msgs()) }),
        /*[C10 swap.guard-applied]*/ r is Ok ==> old(deps.storage).pair_info is Some && old(deps.storage).commission is Some && ({
            let pi = old(deps.storage).pair_info->Some_0;
            exists|i0: AssetInfo, i1: AssetInfo| #![trigger raw_of(i0, pi.asset_infos[0]), raw_of(i1, pi.asset_infos[1])] raw_of(i0, pi.asset_infos[0]) && raw_of(i1, pi.asset_infos[1])
                && swap_guarded(deps.querier.world(), env.contract.address.0@, i0, i1, pi.asset_decimals, old(deps.storage).commission->Some_0.0.v(), offer_asset, belief_price, max_spread) }),
        /*[C09,C02,C01,C03 swap.native-funds]*/ r is Ok ==> (offer_asset.info matches AssetInfo::NativeToken { denom } ==> offer_asset.amount.0 as nat == attached(info.funds@, denom@)),
        /*[C14,C07 swap.no-write]*/ *final(deps.storage) == *old(deps.storage),
//%%insert before #1 /Ok\(Response::new\(\)\.add_messages\(messages\)/
    proof {
        // witnesses for the existential: the two pool descriptors returned by query_pools
        assert(raw_of(pools[0].info, pair_info.asset_infos[0]) && raw_of(pools[1].info, pair_info.asset_infos[1]));
        // (a failed assert is assumed by what follows it: the settlement witness comes first, a guard failure after it is reported on its own)
        /*[C02,C01,C07,C12,C06,C13 swap.witness]*/ assert(swap_settles(deps.querier.world(), env.contract.address.0@, pools[0].info, pools[1].info, commission_rate.0.v(), offer_asset,
            (if to is Some { to->Some_0.0@ } else { sender.0@ }), messages@));
        /*[C10 swap.guard-witness]*/ assert(swap_guarded(deps.querier.world(), env.contract.address.0@, pools[0].info, pools[1].info, pair_info.asset_decimals, commission_rate.0.v(), offer_asset, belief_price, max_spread));
    }
//%end

// ---- C04: what a withdrawal pays ----
pub open spec fn wd_ratio(a: nat, s: nat) -> nat { a * dd() / s }
pub open spec fn wd_refund(rsv: nat, a: nat, s: nat) -> nat { rsv * wd_ratio(a, s) / dd() }
// r_i*a/S - r_i/10^18 - 1 < x_i <= r_i*a/S, cross-multiplied by D*S
pub open spec fn c04_bounds(rsv: nat, a: nat, s: nat, x: nat) -> bool { s > 0 && x * s <= rsv * a && x * dd() * s + rsv * s + dd() * s > rsv * a * dd() }
pub proof fn lemma_c04(rsv: nat, a: nat, s: nat)
    requires s > 0
    ensures c04_bounds(rsv, a, s, wd_refund(rsv, a, s))
{
    let d = dd(); let q = wd_ratio(a, s); let x = wd_refund(rsv, a, s);
    lemma_fundamental_div_mod((a * d) as int, s as int); lemma_mod_bound((a * d) as int, s as int);
    lemma_fundamental_div_mod((rsv * q) as int, d as int); lemma_mod_bound((rsv * q) as int, d as int);
    assert(s * q <= a * d && a * d < s * q + s);
    assert(d * x <= rsv * q && rsv * q < d * x + d);
    assert((d * x) * s <= (rsv * q) * s) by(nonlinear_arith) requires d * x <= rsv * q;
    assert((rsv * q) * s == rsv * (s * q)) by(nonlinear_arith);
    assert(rsv * (s * q) <= rsv * (a * d)) by(nonlinear_arith) requires s * q <= a * d;
    assert((d * x) * s == (x * s) * d) by(nonlinear_arith);
    assert(rsv * (a * d) == (rsv * a) * d) by(nonlinear_arith);
    assert(x * s <= rsv * a) by(nonlinear_arith) requires (x * s) * d <= (rsv * a) * d, d > 0;
    assert((d * x + d) * s > (rsv * q) * s) by(nonlinear_arith) requires rsv * q < d * x + d, s > 0;
    assert(rsv * (s * q + s) >= rsv * (a * d)) by(nonlinear_arith) requires a * d < s * q + s;
    assert(rsv * (s * q + s) == rsv * (s * q) + rsv * s) by(nonlinear_arith);
    assert((d * x + d) * s == x * d * s + d * s) by(nonlinear_arith);
    assert(rsv * (a * d) == rsv * a * d) by(nonlinear_arith);
}
// C20: entitlement r*a/S >= r/10^18 + 2, cross-multiplied by D*S
pub open spec fn c20_entitled(rsv: nat, a: nat, s: nat) -> bool { rsv * a * dd() >= (rsv + 2 * dd()) * s }
pub proof fn lemma_c20_payable(rsv: nat, a: nat, s: nat)
    requires s > 0, c20_entitled(rsv, a, s)
    ensures wd_refund(rsv, a, s) >= 1
{
    lemma_c04(rsv, a, s);
    let x = wd_refund(rsv, a, s); let d = dd();
    assert((rsv + 2 * d) * s == rsv * s + 2 * d * s) by(nonlinear_arith);
    if x == 0 { assert(x * d * s == 0) by(nonlinear_arith) requires x == 0; assert(d * s > 0) by(nonlinear_arith) requires d > 0, s > 0; assert(2 * d * s == d * s + d * s) by(nonlinear_arith); }
}
// a <= S ==> the 128-bit intermediate results of the refund computation fit
pub proof fn lemma_refund_fits(rsv: nat, a: nat, s: nat)
    requires s > 0, a <= s, rsv < p128()
    ensures wd_ratio(a, s) <= dd(), wd_refund(rsv, a, s) <= rsv, rsv * wd_ratio(a, s) / dd() < p128(), a * dd() / s < p128()
{
    let d = dd(); let q = wd_ratio(a, s);
    lemma_fundamental_div_mod((a * d) as int, s as int); lemma_mod_bound((a * d) as int, s as int);
    assert(a * d <= s * d) by(nonlinear_arith) requires a <= s;
    assert(q <= d) by(nonlinear_arith) requires s * q <= a * d, a * d <= s * d, s > 0;
    lemma_fundamental_div_mod((rsv * q) as int, d as int); lemma_mod_bound((rsv * q) as int, d as int);
    assert(rsv * q <= rsv * d) by(nonlinear_arith) requires q <= d;
    let x = rsv * q / d;
    assert(x <= rsv) by(nonlinear_arith) requires d * x <= rsv * q, rsv * q <= rsv * d, d > 0;
}
pub open spec fn burn_msg(lp: Seq<char>, amount: Uint128, m: CosmosMsg) -> bool {
    m matches CosmosMsg::Wasm(WasmMsg::Execute { contract_addr, msg, funds }) && contract_addr@ == lp && funds@.len() == 0
        && msg == bin_of(Cw20ExecuteMsg::Burn { amount })
}
pub open spec fn withdraw_pays(w: World, pair: Seq<char>, pi: PairInfoRaw, i0: AssetInfo, i1: AssetInfo, lp: Seq<char>, sender: Seq<char>, amount: Uint128, msgs: Seq<CosmosMsg>) -> bool {
    let s = w.tok_supply(lp); let a = amount.0 as nat;
    let r0 = balance_of(w, i0, pair); let r1 = balance_of(w, i1, pair);
    s > 0 && canon_of(lp) == pi.liquidity_token.0@
    && wd_refund(r0, a, s) < p128() && wd_refund(r1, a, s) < p128()
    && msgs.len() == 3
    && pay_msg(i0, Uint128(wd_refund(r0, a, s) as u128), sender, msgs[0])
    && pay_msg(i1, Uint128(wd_refund(r1, a, s) as u128), sender, msgs[1])
    && burn_msg(lp, amount, msgs[2])
    && c04_bounds(r0, a, s, wd_refund(r0, a, s)) && c04_bounds(r1, a, s, wd_refund(r1, a, s))
}

//%fn contracts/halo-pair/src/contract.rs | - | withdraw_liquidity
//%if A
//%%rewrite #1 /pools\s*\.iter\(\)\s*\.map\(\|a\| ((?s:.*?))\)\s*\.collect\(\)/ => vmap2(&pools, |a: &Asset| -> (o: Asset) requires total_share.0 != 0 && share_ratio.0 as nat == wd_ratio(amount.0 as nat, total_share.0 as nat) && amount.0 <= total_share.0 ensures /*[C20,C04 withdraw.refund-closure.no-abort]*/ o.info == a.info && o.amount.0 as nat == wd_refund(a.amount.0 as nat, amount.0 as nat, total_share.0 as nat) { proof { lemma_refund_fits(a.amount.0 as nat, amount.0 as nat, total_share.0 as nat); } \1 }) ## R4 (mode A): same helper; the closure's precondition is what the caller establishes, its body must not abort
//%else
//%%rewrite #1 /pools\s*\.iter\(\)\s*\.map\(\|a\| ((?s:.*?))\)\s*\.collect\(\)/ => vmap2(&pools, |a: &Asset| -> (o: Asset) ensures /*[C04,C03 withdraw.refund-closure]*/ o.info == a.info && total_share.0 != 0 && wd_refund(a.amount.0 as nat, amount.0 as nat, total_share.0 as nat) < p128() && o.amount.0 as nat == wd_refund(a.amount.0 as nat, amount.0 as nat, total_share.0 as nat) { \1 }) ## R4: iter().map().collect() over [Asset;2] -> verified helper vmap2; the closure is annotated with the refund formula of C04 and verified against its real body
//%endif
//%%sig
//%if A
    // C20: the LP supply is positive, the burned amount does not exceed it, and the pro-rata entitlement r_i*a/S is at least r_i/10^18 + 2 for both assets
    requires
        old(deps.storage).pair_info is Some,
        ({ let pi = old(deps.storage).pair_info->Some_0; let w = deps.querier.world(); let s = w.tok_supply(human_of(pi.liquidity_token.0@)); let a = amount.0 as nat;
           0 < a <= s && forall|i0: AssetInfo, i1: AssetInfo| #![trigger normal_exact(i0, pi.asset_infos[0]), normal_exact(i1, pi.asset_infos[1])] normal_exact(i0, pi.asset_infos[0]) && normal_exact(i1, pi.asset_infos[1])
              ==> c20_entitled(balance_of(w, i0, env.contract.address.0@), a, s) && c20_entitled(balance_of(w, i1, env.contract.address.0@), a, s) }),
//%endif
    ensures
//%if A
        /*[C20 withdraw.always-succeeds]*/ r is Ok,
        /*[C20 withdraw.payable-amounts]*/ r is Ok ==> ({ let pi = old(deps.storage).pair_info->Some_0; let w = deps.querier.world(); let s = w.tok_supply(human_of(pi.liquidity_token.0@)); let a = amount.0 as nat;
            forall|i0: AssetInfo, i1: AssetInfo| #![trigger normal_exact(i0, pi.asset_infos[0]), normal_exact(i1, pi.asset_infos[1])] normal_exact(i0, pi.asset_infos[0]) && normal_exact(i1, pi.asset_infos[1])
              ==> wd_refund(balance_of(w, i0, env.contract.address.0@), a, s) >= 1 && wd_refund(balance_of(w, i1, env.contract.address.0@), a, s) >= 1 }),
//%endif
        /*[C04,C03,C07 withdraw.pays]*/ r is Ok ==> old(deps.storage).pair_info is Some && ({
            let pi = old(deps.storage).pair_info->Some_0;
            exists|i0: AssetInfo, i1: AssetInfo, lp: Seq<char>| #![trigger raw_of(i0, pi.asset_infos[0]), raw_of(i1, pi.asset_infos[1]), canon_of(lp)]
                raw_of(i0, pi.asset_infos[0]) && raw_of(i1, pi.asset_infos[1])
                && withdraw_pays(deps.querier.world(), env.contract.address.0@, pi, i0, i1, lp, sender.0@, amount, r->Ok_0.msgs()) }),
        /*[C14,C07 withdraw.no-write]*/ *final(deps.storage) == *old(deps.storage),
//%if A
//%%insert before #1 /let share_ratio: Decimal = Decimal::from_ratio\(amount, total_share\);/
    proof {
        lemma_refund_fits(pools[0].amount.0 as nat, amount.0 as nat, total_share.0 as nat);
        lemma_refund_fits(pools[1].amount.0 as nat, amount.0 as nat, total_share.0 as nat);
    }
//%endif
//%%insert before #1 /^    Ok\(Response::new\(\)$/
    proof {
//%if A
        lemma_c20_payable(balance_of(deps.querier.world(), pools[0].info, env.contract.address.0@), amount.0 as nat, total_share.0 as nat);
        lemma_c20_payable(balance_of(deps.querier.world(), pools[1].info, env.contract.address.0@), amount.0 as nat, total_share.0 as nat);
//%endif
        let w = deps.querier.world(); let pair = env.contract.address.0@;
        lemma_c04(balance_of(w, pools[0].info, pair), amount.0 as nat, total_share.0 as nat);
        lemma_c04(balance_of(w, pools[1].info, pair), amount.0 as nat, total_share.0 as nat);
        assert(raw_of(pools[0].info, pair_info.asset_infos[0]) && raw_of(pools[1].info, pair_info.asset_infos[1]));
    }
//%end

// ---- cw20 hook entry (C02 hook swap, C04 withdraw hook, C14 caller checks) ----
pub open spec fn is_pool_token(pi: PairInfoRaw, who: Seq<char>) -> bool {
    (pi.asset_infos[0] matches AssetInfoRaw::Token { contract_addr } && contract_addr.0@ == canon_of(who))
    || (pi.asset_infos[1] matches AssetInfoRaw::Token { contract_addr } && contract_addr.0@ == canon_of(who))
}
pub open spec fn tok_is(i: AssetInfo, who: Seq<char>) -> bool { i matches AssetInfo::Token { contract_addr } && contract_addr@ == who }
//%fn contracts/halo-pair/src/contract.rs | - | receive_cw20
//%%rewrite #1 /for pool in pools\.iter\(\)/ => for pool in it: pools.iter() ## name the loop's ghost iterator so the invariant can mention its position
//%%sig
//%if A
    // C20 through the entry point: the LP token forwards a WithdrawLiquidity hook for `amount` burned by `sender`, with the same entitlement as withdraw_liquidity
    requires
        decode::<Cw20HookMsg>(cw20_msg.msg) matches Ok(Cw20HookMsg::WithdrawLiquidity {}),
        old(deps.storage).pair_info is Some,
        canon_of(info.sender.0@) == old(deps.storage).pair_info->Some_0.liquidity_token.0@,
        ({ let pi = old(deps.storage).pair_info->Some_0; let w = deps.querier.world(); let s = w.tok_supply(human_of(pi.liquidity_token.0@)); let a = cw20_msg.amount.0 as nat;
           0 < a <= s && forall|i0: AssetInfo, i1: AssetInfo| #![trigger normal_exact(i0, pi.asset_infos[0]), normal_exact(i1, pi.asset_infos[1])] normal_exact(i0, pi.asset_infos[0]) && normal_exact(i1, pi.asset_infos[1])
              ==> c20_entitled(balance_of(w, i0, env.contract.address.0@), a, s) && c20_entitled(balance_of(w, i1, env.contract.address.0@), a, s) }),
//%endif
    ensures
//%if A
        /*[C20 hook.withdraw.always-succeeds]*/ r is Ok,
//%endif
        /*[C02,C01,C03,C14,C12 hook.swap.amount]*/ decode::<Cw20HookMsg>(cw20_msg.msg) matches Ok(Cw20HookMsg::Swap { offer_asset, belief_price, max_spread, to }) ==> r is Ok ==>
            offer_asset.amount == cw20_msg.amount,
        /*[C02,C14,C01,C03 hook.swap.sender-is-pool-token]*/ decode::<Cw20HookMsg>(cw20_msg.msg) matches Ok(Cw20HookMsg::Swap { offer_asset, belief_price, max_spread, to }) ==> r is Ok ==>
            old(deps.storage).pair_info is Some && exists|i0: AssetInfo, i1: AssetInfo| #![trigger raw_of(i0, old(deps.storage).pair_info->Some_0.asset_infos[0]), raw_of(i1, old(deps.storage).pair_info->Some_0.asset_infos[1])]
                raw_of(i0, old(deps.storage).pair_info->Some_0.asset_infos[0]) && raw_of(i1, old(deps.storage).pair_info->Some_0.asset_infos[1])
                && (tok_is(i0, info.sender.0@) || tok_is(i1, info.sender.0@)),
        /*[C02,C01,C03 hook.swap.named-asset-is-sender]*/ decode::<Cw20HookMsg>(cw20_msg.msg) matches Ok(Cw20HookMsg::Swap { offer_asset, belief_price, max_spread, to }) ==> r is Ok ==>
            (offer_asset.info matches AssetInfo::Token { contract_addr } && contract_addr@ == info.sender.0@),
        /*[C02,C01,C03,C07,C12,C06,C13 hook.swap.settles]*/ decode::<Cw20HookMsg>(cw20_msg.msg) matches Ok(Cw20HookMsg::Swap { offer_asset, belief_price, max_spread, to }) ==> r is Ok ==>
            old(deps.storage).pair_info is Some && old(deps.storage).commission is Some && ({
                let pi = old(deps.storage).pair_info->Some_0;
                exists|i0: AssetInfo, i1: AssetInfo| #![trigger raw_of(i0, pi.asset_infos[0]), raw_of(i1, pi.asset_infos[1])] raw_of(i0, pi.asset_infos[0]) && raw_of(i1, pi.asset_infos[1])
                    && swap_settles(deps.querier.world(), env.contract.address.0@, i0, i1, old(deps.storage).commission->Some_0.0.v(), offer_asset,
                        (if to is Some { to->Some_0@ } else { cw20_msg.sender@ }), r->Ok_0.msgs()) }),
        /*[C10 hook.swap.guard-applied]*/ decode::<Cw20HookMsg>(cw20_msg.msg) matches Ok(Cw20HookMsg::Swap { offer_asset, belief_price, max_spread, to }) ==> r is Ok ==>
            old(deps.storage).pair_info is Some && old(deps.storage).commission is Some && ({
                let pi = old(deps.storage).pair_info->Some_0;
                exists|i0: AssetInfo, i1: AssetInfo| #![trigger raw_of(i0, pi.asset_infos[0]), raw_of(i1, pi.asset_infos[1])] raw_of(i0, pi.asset_infos[0]) && raw_of(i1, pi.asset_infos[1])
                    && swap_guarded(deps.querier.world(), env.contract.address.0@, i0, i1, pi.asset_decimals, old(deps.storage).commission->Some_0.0.v(), offer_asset, belief_price, max_spread) }),
        /*[C04,C14,C03,C07 hook.withdraw.only-lp-token]*/ decode::<Cw20HookMsg>(cw20_msg.msg) matches Ok(Cw20HookMsg::WithdrawLiquidity {}) ==> r is Ok ==>
            old(deps.storage).pair_info is Some && canon_of(info.sender.0@) == old(deps.storage).pair_info->Some_0.liquidity_token.0@,
        /*[C04,C03,C07 hook.withdraw.pays]*/ decode::<Cw20HookMsg>(cw20_msg.msg) matches Ok(Cw20HookMsg::WithdrawLiquidity {}) ==> r is Ok ==>
            old(deps.storage).pair_info is Some && ({
                let pi = old(deps.storage).pair_info->Some_0;
                exists|i0: AssetInfo, i1: AssetInfo, lp: Seq<char>| #![trigger raw_of(i0, pi.asset_infos[0]), raw_of(i1, pi.asset_infos[1]), canon_of(lp)]
                    raw_of(i0, pi.asset_infos[0]) && raw_of(i1, pi.asset_infos[1])
                    && withdraw_pays(deps.querier.world(), env.contract.address.0@, pi, i0, i1, lp, cw20_msg.sender@, cw20_msg.amount, r->Ok_0.msgs()) }),
        /*[C14 hook.undecodable-rejected]*/ decode::<Cw20HookMsg>(cw20_msg.msg) is Err ==> r is Err,
        /*[C14,C07 hook.no-write]*/ *final(deps.storage) == *old(deps.storage),
//%%loop 1
                invariant /*[C02,C14,C01,C03 hook.loop.authorized]*/ authorized == ((it.index@ > 0 && tok_is(pools[0].info, info.sender.0@)) || (it.index@ > 1 && tok_is(pools[1].info, info.sender.0@))), 0 <= it.index@ <= 2,
//%end

// ---- execute dispatch (C02: execute-swap only for native offers; C14 routing) ----
//%fn contracts/halo-pair/src/contract.rs | - | execute
//%%sig
//%if A
    requires
        msg is Receive,
        decode::<Cw20HookMsg>(msg->Receive_0.msg) matches Ok(Cw20HookMsg::WithdrawLiquidity {}),
        old(deps.storage).pair_info is Some,
        canon_of(info.sender.0@) == old(deps.storage).pair_info->Some_0.liquidity_token.0@,
        ({ let pi = old(deps.storage).pair_info->Some_0; let w = deps.querier.world(); let s = w.tok_supply(human_of(pi.liquidity_token.0@)); let a = msg->Receive_0.amount.0 as nat;
           0 < a <= s && forall|i0: AssetInfo, i1: AssetInfo| #![trigger normal_exact(i0, pi.asset_infos[0]), normal_exact(i1, pi.asset_infos[1])] normal_exact(i0, pi.asset_infos[0]) && normal_exact(i1, pi.asset_infos[1])
              ==> c20_entitled(balance_of(w, i0, env.contract.address.0@), a, s) && c20_entitled(balance_of(w, i1, env.contract.address.0@), a, s) }),
//%endif
    ensures
//%if A
        /*[C20 exec.withdraw.always-succeeds]*/ r is Ok,
//%endif
        /*[C02,C01,C03,C14 exec.swap.native-only]*/ msg matches ExecuteMsg::Swap { offer_asset, belief_price, max_spread, to } ==> r is Ok ==> offer_asset.info is NativeToken,
        /*[C02,C09,C01,C03,C12 exec.swap.native-funds]*/ msg matches ExecuteMsg::Swap { offer_asset, belief_price, max_spread, to } ==> r is Ok ==>
            (offer_asset.info matches AssetInfo::NativeToken { denom } ==> offer_asset.amount.0 as nat == attached(info.funds@, denom@)),
        /*[C02,C01,C03,C07,C12,C06,C13 exec.swap.settles]*/ msg matches ExecuteMsg::Swap { offer_asset, belief_price, max_spread, to } ==> r is Ok ==>
            old(deps.storage).pair_info is Some && old(deps.storage).commission is Some && ({
                let pi = old(deps.storage).pair_info->Some_0;
                exists|i0: AssetInfo, i1: AssetInfo| #![trigger raw_of(i0, pi.asset_infos[0]), raw_of(i1, pi.asset_infos[1])] raw_of(i0, pi.asset_infos[0]) && raw_of(i1, pi.asset_infos[1])
                    && swap_settles(deps.querier.world(), env.contract.address.0@, i0, i1, old(deps.storage).commission->Some_0.0.v(), offer_asset,
                        (if to is Some { to->Some_0@ } else { info.sender.0@ }), r->Ok_0.msgs()) }),
        /*[C10 exec.swap.guard-applied]*/ msg matches ExecuteMsg::Swap { offer_asset, belief_price, max_spread, to } ==> r is Ok ==>
            old(deps.storage).pair_info is Some && old(deps.storage).commission is Some && ({
                let pi = old(deps.storage).pair_info->Some_0;
                exists|i0: AssetInfo, i1: AssetInfo| #![trigger raw_of(i0, pi.asset_infos[0]), raw_of(i1, pi.asset_infos[1])] raw_of(i0, pi.asset_infos[0]) && raw_of(i1, pi.asset_infos[1])
                    && swap_guarded(deps.querier.world(), env.contract.address.0@, i0, i1, pi.asset_decimals, old(deps.storage).commission->Some_0.0.v(), offer_asset, belief_price, max_spread) }),
        /*[C14,C07 exec.swap.no-write]*/ msg is Swap ==> *final(deps.storage) == *old(deps.storage),
        /*[C14,C17 exec.update-decimals.only-factory]*/ msg is UpdateNativeTokenDecimals ==> r is Ok ==> old(deps.storage).config is Some && info.sender.0@ == old(deps.storage).config->Some_0.halo_factory.0@,
        /*[C14 exec.update-decimals.reject-no-write]*/ msg is UpdateNativeTokenDecimals ==> r is Err ==> *final(deps.storage) == *old(deps.storage),
        /*[C14,C07 exec.receive.no-write]*/ msg is Receive ==> *final(deps.storage) == *old(deps.storage),
        // the dispatcher hands every arm its own arguments: what the handlers guarantee is restated at the entry point
        /*[C09,C05,C03 exec.provide.native-funds]*/ msg matches ExecuteMsg::ProvideLiquidity { assets, slippage_tolerance, receiver } ==> r is Ok ==> provide_funds_ok(info.funds@, assets),
        /*[C05,C03,C07 exec.provide.mints-and-pulls]*/ msg matches ExecuteMsg::ProvideLiquidity { assets, slippage_tolerance, receiver } ==> r is Ok ==>
            provide_mints_ok(*old(deps.storage), deps.querier.world(), env.contract.address.0@, info.sender.0@, receiver, assets, r->Ok_0.msgs()),
        /*[C15 exec.provide.slippage-applied]*/ msg matches ExecuteMsg::ProvideLiquidity { assets, slippage_tolerance, receiver } ==> r is Ok ==>
            provide_slip_ok(*old(deps.storage), deps.querier.world(), env.contract.address.0@, assets, slippage_tolerance),
        /*[C04,C14,C03,C07 exec.hook.withdraw.only-lp-token]*/ msg matches ExecuteMsg::Receive(m) ==> decode::<Cw20HookMsg>(m.msg) matches Ok(Cw20HookMsg::WithdrawLiquidity {}) ==> r is Ok ==>
            old(deps.storage).pair_info is Some && canon_of(info.sender.0@) == old(deps.storage).pair_info->Some_0.liquidity_token.0@,
        /*[C04,C03,C07 exec.hook.withdraw.pays]*/ msg matches ExecuteMsg::Receive(m) ==> decode::<Cw20HookMsg>(m.msg) matches Ok(Cw20HookMsg::WithdrawLiquidity {}) ==> r is Ok ==>
            old(deps.storage).pair_info is Some && ({
                let pi = old(deps.storage).pair_info->Some_0;
                exists|i0: AssetInfo, i1: AssetInfo, lp: Seq<char>| #![trigger raw_of(i0, pi.asset_infos[0]), raw_of(i1, pi.asset_infos[1]), canon_of(lp)]
                    raw_of(i0, pi.asset_infos[0]) && raw_of(i1, pi.asset_infos[1])
                    && withdraw_pays(deps.querier.world(), env.contract.address.0@, pi, i0, i1, lp, m.sender@, m.amount, r->Ok_0.msgs()) }),
        /*[C02,C01,C03,C14,C12 exec.hook.swap.amount-and-asset]*/ msg matches ExecuteMsg::Receive(m) ==> (decode::<Cw20HookMsg>(m.msg) matches Ok(Cw20HookMsg::Swap { offer_asset, belief_price, max_spread, to }) ==> r is Ok ==>
            offer_asset.amount == m.amount && (offer_asset.info matches AssetInfo::Token { contract_addr } && contract_addr@ == info.sender.0@)),
        /*[C02,C01,C03,C07,C12,C06,C13 exec.hook.swap.settles]*/ msg matches ExecuteMsg::Receive(m) ==> (decode::<Cw20HookMsg>(m.msg) matches Ok(Cw20HookMsg::Swap { offer_asset, belief_price, max_spread, to }) ==> r is Ok ==>
            old(deps.storage).pair_info is Some && old(deps.storage).commission is Some && ({
                let pi = old(deps.storage).pair_info->Some_0;
                exists|i0: AssetInfo, i1: AssetInfo| #![trigger raw_of(i0, pi.asset_infos[0]), raw_of(i1, pi.asset_infos[1])] raw_of(i0, pi.asset_infos[0]) && raw_of(i1, pi.asset_infos[1])
                    && swap_settles(deps.querier.world(), env.contract.address.0@, i0, i1, old(deps.storage).commission->Some_0.0.v(), offer_asset,
                        (if to is Some { to->Some_0@ } else { m.sender@ }), r->Ok_0.msgs()) })),
        /*[C10 exec.hook.swap.guard-applied]*/ msg matches ExecuteMsg::Receive(m) ==> (decode::<Cw20HookMsg>(m.msg) matches Ok(Cw20HookMsg::Swap { offer_asset, belief_price, max_spread, to }) ==> r is Ok ==>
            old(deps.storage).pair_info is Some && old(deps.storage).commission is Some && ({
                let pi = old(deps.storage).pair_info->Some_0;
                exists|i0: AssetInfo, i1: AssetInfo| #![trigger raw_of(i0, pi.asset_infos[0]), raw_of(i1, pi.asset_infos[1])] raw_of(i0, pi.asset_infos[0]) && raw_of(i1, pi.asset_infos[1])
                    && swap_guarded(deps.querier.world(), env.contract.address.0@, i0, i1, pi.asset_decimals, old(deps.storage).commission->Some_0.0.v(), offer_asset, belief_price, max_spread) })),
        /*[C17,C10,C04,C03,C05,C01,C02 exec.update-decimals.applies]*/ msg matches ExecuteMsg::UpdateNativeTokenDecimals { denom, asset_decimals } ==> r is Ok ==> old(deps.storage).pair_info is Some && final(deps.storage).pair_info is Some && ({
            let o = old(deps.storage).pair_info->Some_0; let n = final(deps.storage).pair_info->Some_0;
            n.asset_infos == o.asset_infos && n.contract_addr == o.contract_addr && n.liquidity_token == o.liquidity_token
            && n.requirements == o.requirements && n.commission_rate == o.commission_rate
            && ((raw_is_native(o.asset_infos[0], denom@) || raw_is_native(o.asset_infos[1], denom@)) ==> n.asset_decimals == asset_decimals)
            && (!(raw_is_native(o.asset_infos[0], denom@) || raw_is_native(o.asset_infos[1], denom@)) ==> n.asset_decimals == o.asset_decimals) }),
//%end

// ---- decimals update pushed by the factory (C14, C17) ----
pub open spec fn raw_is_native(a: AssetInfoRaw, denom: Seq<char>) -> bool { a matches AssetInfoRaw::NativeToken { denom: d } && d@ == denom }
//%fn contracts/halo-pair/src/contract.rs | - | update_native_token_decimals
//%%rewrite #1 /for asset_info in asset_infos\.iter_mut\(\) \{/ => for asset_info in it: asset_infos.iter() { ## the loop only reads its element: iterate immutably (Verus has no iter_mut) and name the ghost iterator
//%%sig
    ensures
        /*[C14,C17 upd.only-factory]*/ r is Ok ==> old(deps.storage).config is Some && info.sender.0@ == old(deps.storage).config->Some_0.halo_factory.0@,
        /*[C14 upd.reject-no-write]*/ r is Err ==> *final(deps.storage) == *old(deps.storage),
        /*[C17,C10,C04,C03,C05,C01,C02 upd.applies]*/ r is Ok ==> old(deps.storage).pair_info is Some && final(deps.storage).pair_info is Some && ({
            let o = old(deps.storage).pair_info->Some_0; let n = final(deps.storage).pair_info->Some_0;
            n.asset_infos == o.asset_infos && n.contract_addr == o.contract_addr && n.liquidity_token == o.liquidity_token
            && n.requirements == o.requirements && n.commission_rate == o.commission_rate
            && ((raw_is_native(o.asset_infos[0], denom@) || raw_is_native(o.asset_infos[1], denom@)) ==> n.asset_decimals == asset_decimals)
            && (!(raw_is_native(o.asset_infos[0], denom@) || raw_is_native(o.asset_infos[1], denom@)) ==> n.asset_decimals == o.asset_decimals) }),
        /*[C17,C14,C06 upd.frame]*/ final(deps.storage).config == old(deps.storage).config && final(deps.storage).commission == old(deps.storage).commission,
//%%loop 1
        invariant 0 <= it.index@ <= 2,
            pair_info_raw.asset_decimals == (if (it.index@ > 0 && raw_is_native(asset_infos[0], denom@)) || (it.index@ > 1 && raw_is_native(asset_infos[1], denom@)) { asset_decimals } else { old(deps.storage).pair_info->Some_0.asset_decimals }),
            pair_info_raw.asset_infos == asset_infos, pair_info_raw.contract_addr == old(deps.storage).pair_info->Some_0.contract_addr,
            pair_info_raw.liquidity_token == old(deps.storage).pair_info->Some_0.liquidity_token, pair_info_raw.requirements == old(deps.storage).pair_info->Some_0.requirements,
            pair_info_raw.commission_rate == old(deps.storage).pair_info->Some_0.commission_rate,
//%end

// ---- quotes (C12) ----
pub open spec fn sim_ok(w: World, pair: Seq<char>, i0: AssetInfo, i1: AssetInfo, rate: nat, offer: Asset, n: Uint128, sp: Uint128, c: Uint128) -> bool {
    (offer.info.same(&i0) || offer.info.same(&i1)) && ({
        let oi = if offer.info.same(&i0) { i0 } else { i1 };
        let ai = if offer.info.same(&i0) { i1 } else { i0 };
        swap_pinned(balance_of(w, oi, pair), balance_of(w, ai, pair), offer.amount.0 as nat, rate, n.0 as nat, sp.0 as nat, c.0 as nat)
    })
}
pub open spec fn rev_ok(w: World, pair: Seq<char>, i0: AssetInfo, i1: AssetInfo, rate: nat, ask: Asset, o: Uint128) -> bool {
    (ask.info.same(&i0) || ask.info.same(&i1)) && ({
        let ai = if ask.info.same(&i0) { i0 } else { i1 };
        let oi = if ask.info.same(&i0) { i1 } else { i0 };
        let x = balance_of(w, oi, pair); let y = balance_of(w, ai, pair); let k = ask.amount.0 as nat;
        rev_pinned(x, y, k, rate, o.0 as nat) && c12_not_above(x, y, k, rate, o.0 as nat) && c12_rounding_bound(x, y, k, rate, o.0 as nat)
    })
}
// C12 forward: the quote and the executed swap go through one function of (reserve before deposit, other reserve, offer, rate);
// two results pinned to it coincide
pub proof fn lemma_c12_forward(x: nat, y: nat, a: nat, cr: nat, n1: nat, sp1: nat, c1: nat, n2: nat, sp2: nat, c2: nat)
    requires swap_pinned(x, y, a, cr, n1, sp1, c1), swap_pinned(x, y, a, cr, n2, sp2, c2)
    ensures /*[C12,C13 quote.forward-unique]*/ n1 == n2 && sp1 == sp2 && c1 == c2
{}
//%fn contracts/halo-pair/src/contract.rs | - | query_simulation
//%%sig
    ensures
        /*[C12,C13 quote.forward]*/ r is Ok ==> deps.storage.pair_info is Some && deps.storage.commission is Some && ({
            let pi = deps.storage.pair_info->Some_0;
            exists|i0: AssetInfo, i1: AssetInfo| #![trigger raw_of(i0, pi.asset_infos[0]), raw_of(i1, pi.asset_infos[1])] raw_of(i0, pi.asset_infos[0]) && raw_of(i1, pi.asset_infos[1])
                && sim_ok(deps.querier.world(), human_of(pi.contract_addr.0@), i0, i1, deps.storage.commission->Some_0.0.v(), offer_asset,
                    r->Ok_0.return_amount, r->Ok_0.spread_amount, r->Ok_0.commission_amount) }),
//%%insert before #1 /^    Ok\(SimulationResponse \{/
    proof {
        assert(raw_of(pools[0].info, pair_info.asset_infos[0]) && raw_of(pools[1].info, pair_info.asset_infos[1]));
        /*[C12,C13 quote.forward.witness]*/ assert(sim_ok(deps.querier.world(), human_of(pair_info.contract_addr.0@), pools[0].info, pools[1].info, commission_rate.0.v(), offer_asset, return_amount, spread_amount, commission_amount));
    }
//%end
//%fn contracts/halo-pair/src/contract.rs | - | query_reverse_simulation
//%%sig
    ensures
        /*[C12 quote.reverse]*/ r is Ok ==> deps.storage.pair_info is Some && deps.storage.commission is Some && ({
            let pi = deps.storage.pair_info->Some_0;
            exists|i0: AssetInfo, i1: AssetInfo| #![trigger raw_of(i0, pi.asset_infos[0]), raw_of(i1, pi.asset_infos[1])] raw_of(i0, pi.asset_infos[0]) && raw_of(i1, pi.asset_infos[1])
                && rev_ok(deps.querier.world(), human_of(pi.contract_addr.0@), i0, i1, deps.storage.commission->Some_0.0.v(), ask_asset, r->Ok_0.offer_amount) }),
//%%insert before #1 /^    Ok\(ReverseSimulationResponse \{/
    proof {
        assert(raw_of(pools[0].info, pair_info.asset_infos[0]) && raw_of(pools[1].info, pair_info.asset_infos[1]));
        /*[C12 quote.reverse.witness]*/ assert(rev_ok(deps.querier.world(), human_of(pair_info.contract_addr.0@), pools[0].info, pools[1].info, commission_rate.0.v(), ask_asset, offer_amount));
    }
//%end

// ---- instantiation and self-description (C16 / C17: what the pair reports about itself is what the factory told it) ----
pub mod tokenmsg {
use super::*;
//%item packages/haloswap/src/token.rs struct InstantiateMsg
}
use tokenmsg::InstantiateMsg as TokenInstantiateMsg;
//%fn contracts/halo-pair/src/contract.rs | - | instantiate
//%%sig
    ensures
        /*[C14,C17 init.factory-is-creator]*/ r is Ok ==> final(deps.storage).config is Some && final(deps.storage).config->Some_0.halo_factory.0@ == info.sender.0@,
        /*[C16,C17,C05,C10,C06 init.stores-what-it-was-told]*/ r is Ok ==> final(deps.storage).pair_info is Some && ({ let p = final(deps.storage).pair_info->Some_0;
            raw_of(msg.asset_infos[0], p.asset_infos[0]) && raw_of(msg.asset_infos[1], p.asset_infos[1]) && p.asset_decimals == msg.asset_decimals
            && p.requirements == msg.requirements && p.commission_rate == msg.commission_rate && p.contract_addr.0@ == canon_of(env.contract.address.0@) })
            && final(deps.storage).commission == Some(msg.commission_rate),
        // the LP token is created with NO initial balances, the pair as its only minter, no cap, no admin and no funds: LP supply can then only
        // come from the pair's own Mint messages (C05 / C07 / C03 rest on this)
        /*[C05,C07,C03,C04 init.lp-token-message]*/ r is Ok ==> r->Ok_0.messages@.len() == 1 && r->Ok_0.messages@[0].id == INSTANTIATE_REPLY_ID && r->Ok_0.messages@[0].reply_on == ReplyOn::Success
            && (r->Ok_0.messages@[0].msg matches CosmosMsg::Wasm(WasmMsg::Instantiate { admin, code_id, msg: m, funds, label }) && admin is None && code_id == msg.token_code_id && funds@.len() == 0
                && exists|t: TokenInstantiateMsg| #![trigger bin_of(t)] m == bin_of(t) && t.initial_balances@.len() == 0
                    && (t.mint matches Some(mr) && mr.minter@ == env.contract.address.0@ && mr.cap is None)),
//%end
//%fn contracts/halo-pair/src/contract.rs | - | query_pair_info
//%%sig
    ensures
        /*[C16,C17 self-report.is-stored-record]*/ r is Ok ==> deps.storage.pair_info is Some && normal_of(deps.storage.pair_info->Some_0, r->Ok_0),
//%end
