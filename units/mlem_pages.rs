// ===== C19: walking the listing page by page visits every key exactly once (pure lemmas over byte-string order) =====
pub open spec fn keys_sorted(ks: Seq<Seq<u8>>) -> bool { forall|i: int, j: int| 0 <= i < j < ks.len() ==> lex_lt(#[trigger] ks[i], #[trigger] ks[j]) }
// exclusive lower bound of a page: None = from the beginning
pub open spec fn above(lo: Option<Seq<u8>>, k: Seq<u8>) -> bool { lo is None || lex_lt(lo->Some_0, k) }
// s splits the ascending listing into the keys not above the bound and the keys above it
pub open spec fn split_at(all: Seq<Seq<u8>>, lo: Option<Seq<u8>>, s: int) -> bool {
    0 <= s <= all.len() && (forall|j: int| 0 <= j < s ==> !above(lo, #[trigger] all[j])) && (forall|j: int| s <= j < all.len() ==> above(lo, #[trigger] all[j]))
}
// the cursor that continues after key k: pair_key ++ [1], exclusive
pub open spec fn cursor_after(k: Seq<u8>) -> Seq<u8> { k + seq![1u8] }
// no registered key lies in (k, k ++ [1]] for a registered k  (see DESIGN: holds when no identifier extends another by a byte <= 1)
pub open spec fn no_gap(all: Seq<Seq<u8>>) -> bool { forall|i: int, j: int| 0 <= i < j < all.len() ==> lex_lt(cursor_after(#[trigger] all[i]), #[trigger] all[j]) }

pub proof fn lemma_lex_trans(a: Seq<u8>, b: Seq<u8>, c: Seq<u8>)
    requires lex_lt(a, b), lex_lt(b, c)
    ensures lex_lt(a, c)
    decreases a.len()
{
    if a.len() > 0 && b.len() > 0 && c.len() > 0 && a[0] == b[0] && b[0] == c[0] { lemma_lex_trans(a.drop_first(), b.drop_first(), c.drop_first()); }
}
pub proof fn lemma_lex_append(a: Seq<u8>, x: u8)
    ensures lex_lt(a, a + seq![x])
    decreases a.len()
{
    let b = a + seq![x];
    if a.len() > 0 { assert(b.drop_first() =~= a.drop_first() + seq![x]); lemma_lex_append(a.drop_first(), x); }
}
// the split index is determined by the bound
pub proof fn lemma_split_unique(all: Seq<Seq<u8>>, lo: Option<Seq<u8>>, s: int, t: int)
    requires split_at(all, lo, s), split_at(all, lo, t)
    ensures s == t
{
    if s < t { assert(above(lo, all[s])); assert(!above(lo, all[s])); }
    if t < s { assert(above(lo, all[t])); assert(!above(lo, all[t])); }
}
// continuing after the i-th key (0-based i-1) resumes exactly at index i
pub proof fn lemma_cursor_split(all: Seq<Seq<u8>>, i: int)
    requires keys_sorted(all), no_gap(all), 0 < i <= all.len()
    ensures /*[C19 walk.cursor-resumes-after-last]*/ split_at(all, Some(cursor_after(all[i - 1])), i)
{
    let lo = cursor_after(all[i - 1]);
    lemma_lex_append(all[i - 1], 1u8);
    assert forall|j: int| 0 <= j < i implies !above(Some(lo), #[trigger] all[j]) by {
        // all[j] <= all[i-1] < lo
        if lex_lt(lo, all[j]) {
            lemma_lex_trans(all[i - 1], lo, all[j]);
            if j < i - 1 { lemma_lex_total(all[j], all[i - 1]); } else { lemma_lex_total(all[j], all[j]); }
        }
    }
    assert forall|j: int| i <= j < all.len() implies above(Some(lo), #[trigger] all[j]) by { assert(lex_lt(cursor_after(all[i - 1]), all[j])); }
}
// the keys a page returns when `n` entries are allowed and the listing resumes at index s
pub open spec fn page_len(all_len: int, s: int, n: nat) -> int { if all_len - s < n { all_len - s } else { n as int } }
// the whole walk: pages of at most n (>= 1) entries, each continuing after the last key of the previous one
pub open spec fn walk_from(all: Seq<Seq<u8>>, n: nat, i: int) -> Seq<Seq<u8>> decreases all.len() - i
{
    if i < 0 || i >= all.len() || n == 0 { Seq::empty() } else { all.subrange(i, i + page_len(all.len() as int, i, n)) + walk_from(all, n, i + page_len(all.len() as int, i, n)) }
}
pub proof fn lemma_walk_complete(all: Seq<Seq<u8>>, n: nat, i: int)
    requires n >= 1, 0 <= i <= all.len()
    ensures /*[C19 walk.visits-every-key-once-in-order]*/ walk_from(all, n, i) == all.subrange(i, all.len() as int)
    decreases all.len() - i
{
    if i < all.len() {
        let m = page_len(all.len() as int, i, n);
        lemma_walk_complete(all, n, i + m);
        assert(all.subrange(i, i + m) + all.subrange(i + m, all.len() as int) =~= all.subrange(i, all.len() as int));
    } else {
        assert(all.subrange(i, all.len() as int) =~= Seq::<Seq<u8>>::empty());
    }
}
// a strictly ascending listing has no duplicates: "exactly once"
pub proof fn lemma_sorted_no_dup(all: Seq<Seq<u8>>)
    requires keys_sorted(all)
    ensures /*[C19 walk.no-duplicates]*/ all.no_duplicates()
{
    assert forall|i: int, j: int| 0 <= i < all.len() && 0 <= j < all.len() && i != j implies all[i] != all[j] by {
        if i < j { lemma_lex_total(all[i], all[j]); } else { lemma_lex_total(all[j], all[i]); }
    }
}
// k2 continues k by a byte <= 1 (the only way a key can fall into the gap (k, k ++ [1]])
pub open spec fn ext01(k: Seq<u8>, k2: Seq<u8>) -> bool { k2.len() > k.len() && k2.subrange(0, k.len() as int) == k && k2[k.len() as int] <= 1 }
pub open spec fn no_ext01(all: Seq<Seq<u8>>) -> bool { forall|i: int, j: int| 0 <= i < all.len() && 0 <= j < all.len() ==> !ext01(#[trigger] all[i], #[trigger] all[j]) }
pub proof fn lemma_gap(k: Seq<u8>, k2: Seq<u8>)
    requires lex_lt(k, k2), !ext01(k, k2)
    ensures lex_lt(cursor_after(k), k2)
    decreases k.len()
{
    let c = cursor_after(k);
    if k.len() == 0 {
        assert(k2.subrange(0, 0) =~= k);
        assert(c[0] == 1u8);
    } else if k[0] == k2[0] {
        let kd = k.drop_first(); let k2d = k2.drop_first();
        if ext01(kd, k2d) {
            assert(k2.subrange(0, k.len() as int) =~= k) by {
                assert forall|t: int| 0 <= t < k.len() implies k2.subrange(0, k.len() as int)[t] == k[t] by {
                    if t > 0 { assert(k2d.subrange(0, kd.len() as int)[t - 1] == kd[t - 1]); }
                }
            }
            assert(k2[k.len() as int] == k2d[kd.len() as int]);
        }
        lemma_gap(kd, k2d);
        assert(c.drop_first() =~= cursor_after(kd));
    }
}
pub proof fn lemma_no_gap(all: Seq<Seq<u8>>)
    requires keys_sorted(all), no_ext01(all)
    ensures /*[C19 walk.no-key-in-cursor-gap]*/ no_gap(all)
{
    assert forall|i: int, j: int| 0 <= i < j < all.len() implies lex_lt(cursor_after(#[trigger] all[i]), #[trigger] all[j]) by { lemma_gap(all[i], all[j]); }
}
