// Decimal -> Decimal256 is implemented in math.rs through text (to_string / from_str): ASSUMED value preserving (C18 is n/a)
impl From<Decimal> for Decimal256 { #[verifier::external_body] fn from(val: Decimal) -> (r: Decimal256) ensures r.0.v() == val.0 as nat { unimplemented!() } }
impl FromSpecImpl<Decimal> for Decimal256 {
    open spec fn obeys_from_spec() -> bool { false }
    open spec fn from_spec(val: Decimal) -> Decimal256 { arbitrary() }
}
