// ===== ASSUMED contracts for cosmwasm_std 1.1.8 / cw20 1.0.0 data types and runtime services =====
// Plain data types are re-declared with the same public shape; functions are external_body with the
// contract read off the dependency's source.  Everything here is part of the trusted base.

// ---- String helpers ----
pub broadcast proof fn axiom_to_string_string(s: &String, r: String)
    ensures #[trigger] vstd::string::to_string_from_display_ensures::<String>(s, r) <==> s@ == r@ { admit(); }
// String: PartialEq through references (`&String == &String`) -- vstd has the by-value spec only
pub broadcast proof fn axiom_string_eq_spec(a: String, b: String) ensures #[trigger] <String as PartialEqSpec<String>>::eq_spec(&a, &b) == (a@ == b@) { admit(); }
#[verifier::allow(broadcast_without_trigger)]
pub broadcast proof fn axiom_string_obeys_eq() ensures <String as PartialEqSpec<String>>::obeys_eq_spec() { admit(); }
// a String is determined by its characters (needed to use `String` keys of a HashMap through their text): ASSUMED
pub broadcast proof fn axiom_string_ext(a: String, b: String) ensures (#[trigger] a@ == #[trigger] b@) ==> a == b { admit(); }
// std's String hashes and compares consistently with its value (vstd states this only for primitive keys): ASSUMED
#[verifier::allow(broadcast_without_trigger)]
pub broadcast proof fn axiom_string_key_model() ensures vstd::std_specs::hash::obeys_key_model::<String>() { admit(); }
#[verifier::external_body] pub fn opaque_string() -> (r: String) { unimplemented!() }

// ---- abort helpers for Option / Result (.unwrap() / .expect()) ----
pub trait RtUnwrap<T>: Sized {
    spec fn rt_ok(&self) -> bool;
    spec fn rt_val(&self) -> T;
//%if A
    fn rt_unwrap(self) -> (r: T) requires self.rt_ok() ensures r == self.rt_val();
//%else
    fn rt_unwrap(self) -> (r: T) ensures self.rt_ok(), r == self.rt_val();
//%endif
}
impl<T> RtUnwrap<T> for Option<T> {
    open spec fn rt_ok(&self) -> bool { self is Some }
    open spec fn rt_val(&self) -> T { self->Some_0 }
    #[verifier::external_body] fn rt_unwrap(self) -> (r: T) { unimplemented!() }
}
impl<T, E> RtUnwrap<T> for Result<T, E> {
    open spec fn rt_ok(&self) -> bool { self is Ok }
    open spec fn rt_val(&self) -> T { self->Ok_0 }
    #[verifier::external_body] fn rt_unwrap(self) -> (r: T) { unimplemented!() }
}

// ---- errors ----
pub struct StdError { pub msg: String }
pub type StdResult<T> = Result<T, StdError>;
impl StdError {
    #[verifier::external_body] pub fn generic_err(msg: impl Into<String>) -> (r: StdError) { unimplemented!() }
}
pub struct OverflowError { pub dummy: u8 }
impl From<OverflowError> for StdError { #[verifier::external_body] fn from(e: OverflowError) -> (r: StdError) { unimplemented!() } }
impl FromSpecImpl<OverflowError> for StdError {
    open spec fn obeys_from_spec() -> bool { false }
    open spec fn from_spec(e: OverflowError) -> StdError { arbitrary() }
}

// ---- Uint128 checked arithmetic, ratio ----
impl Uint128 {
    #[verifier::external_body] pub fn checked_sub(self, other: Uint128) -> (r: Result<Uint128, OverflowError>)
        ensures (r is Ok) == (self.0 >= other.0), r is Ok ==> r->Ok_0.0 == self.0 - other.0 { unimplemented!() }
    #[verifier::external_body] pub fn checked_mul(self, other: Uint128) -> (r: Result<Uint128, OverflowError>)
        ensures (r is Ok) == (self.0 * other.0 <= u128::MAX), r is Ok ==> r->Ok_0.0 == self.0 * other.0 { unimplemented!() }
    #[verifier::external_body] pub fn checked_add(self, other: Uint128) -> (r: Result<Uint128, OverflowError>)
        ensures (r is Ok) == (self.0 + other.0 <= u128::MAX), r is Ok ==> r->Ok_0.0 == self.0 + other.0 { unimplemented!() }
    #[verifier::external_body] pub fn saturating_sub(self, other: Uint128) -> (r: Uint128)
        ensures r.0 == (if self.0 >= other.0 { (self.0 - other.0) as u128 } else { 0u128 }) { unimplemented!() }
    #[verifier::external_body] pub fn saturating_add(self, other: Uint128) -> (r: Uint128)
        ensures r.0 == (if self.0 + other.0 <= u128::MAX { (self.0 + other.0) as u128 } else { u128::MAX }) { unimplemented!() }
    // Uint128::multiply_ratio: 256-bit intermediate, floor, aborts on zero denominator or >128-bit result
    #[verifier::external_body] pub fn multiply_ratio(&self, numerator: Uint128, denominator: Uint128) -> (r: Uint128)
//%if A
        requires denominator.0 != 0, (self.0 as nat) * (numerator.0 as nat) / (denominator.0 as nat) < p128()
        ensures r.0 as nat == (self.0 as nat) * (numerator.0 as nat) / (denominator.0 as nat)
//%else
        ensures denominator.0 != 0, (self.0 as nat) * (numerator.0 as nat) / (denominator.0 as nat) < p128(),
            r.0 as nat == (self.0 as nat) * (numerator.0 as nat) / (denominator.0 as nat)
//%endif
    { unimplemented!() }
    #[verifier::external_body] pub fn to_string(&self) -> (r: String) { unimplemented!() }
}
impl From<u64> for Uint128 { #[verifier::external_body] fn from(x: u64) -> (r: Uint128) ensures r.0 == x as u128 { unimplemented!() } }
impl FromSpecImpl<u64> for Uint128 {
    open spec fn obeys_from_spec() -> bool { true }
    open spec fn from_spec(x: u64) -> Uint128 { Uint128(x as u128) }
}

// ---- cosmwasm_std::Decimal: 18 fractional digits over u128 ----
#[derive(Copy, Clone)]
pub struct Decimal(pub u128);
impl Decimal {
    // Decimal::from_ratio(n, d) = floor(n * 10^18 / d); aborts on d == 0 or a result above 128 bits
    #[verifier::external_body] pub fn from_ratio(numerator: Uint128, denominator: Uint128) -> (r: Decimal)
//%if A
        requires denominator.0 != 0, (numerator.0 as nat) * dd() / (denominator.0 as nat) < p128()
        ensures r.0 as nat == (numerator.0 as nat) * dd() / (denominator.0 as nat)
//%else
        ensures denominator.0 != 0, (numerator.0 as nat) * dd() / (denominator.0 as nat) < p128(),
            r.0 as nat == (numerator.0 as nat) * dd() / (denominator.0 as nat)
//%endif
    { unimplemented!() }
}
// Decimal::one() = 10^18 atomics, Decimal::zero() = 0; `-` aborts on underflow, `+` on overflow (checked arithmetic of cosmwasm-std 1.x)
impl Decimal {
    #[verifier::external_body] pub fn one() -> (r: Decimal) ensures r.0 as nat == dd() { unimplemented!() }
    // Fraction::inv: 1/x rounded down to 18 digits, None for zero
    #[verifier::external_body] pub fn inv(&self) -> (r: Option<Decimal>)
        ensures (r is None) == (self.0 == 0), r is Some ==> r->Some_0.0 as nat == dd() * dd() / (self.0 as nat) { unimplemented!() }
    // Decimal::percent(x) = x / 100, Decimal::permille(x) = x / 1000 (exact in 18 digits)
    #[verifier::external_body] pub fn percent(x: u64) -> (r: Decimal) ensures r.0 as nat == (x as nat) * 10_000_000_000_000_000nat { unimplemented!() }
    #[verifier::external_body] pub fn permille(x: u64) -> (r: Decimal) ensures r.0 as nat == (x as nat) * 1_000_000_000_000_000nat { unimplemented!() }
    #[verifier::external_body] pub fn zero() -> (r: Decimal) ensures r.0 == 0 { unimplemented!() }
    #[verifier::external_body] pub fn is_zero(&self) -> (r: bool) ensures r == (self.0 == 0) { unimplemented!() }
}
impl ops::Sub for Decimal { type Output = Decimal;
    #[verifier::external_body]
    fn sub(self, rhs: Decimal) -> (r: Decimal)
//%if A
        ensures r.0 == self.0 - rhs.0
//%else
        ensures self.0 >= rhs.0, r.0 == self.0 - rhs.0
//%endif
    { unimplemented!() } }
impl SubSpecImpl for Decimal {
    open spec fn obeys_sub_spec() -> bool { false }
//%if A
    open spec fn sub_req(self, rhs: Decimal) -> bool { self.0 >= rhs.0 }
//%else
    open spec fn sub_req(self, rhs: Decimal) -> bool { true }
//%endif
    open spec fn sub_spec(self, rhs: Decimal) -> Decimal { arbitrary() }
}
impl ops::Add for Decimal { type Output = Decimal;
    #[verifier::external_body]
    fn add(self, rhs: Decimal) -> (r: Decimal)
//%if A
        ensures r.0 == self.0 + rhs.0
//%else
        ensures self.0 + rhs.0 < p128(), r.0 == self.0 + rhs.0
//%endif
    { unimplemented!() } }
impl AddSpecImpl for Decimal {
    open spec fn obeys_add_spec() -> bool { false }
//%if A
    open spec fn add_req(self, rhs: Decimal) -> bool { self.0 + rhs.0 < p128() }
//%else
    open spec fn add_req(self, rhs: Decimal) -> bool { true }
//%endif
    open spec fn add_spec(self, rhs: Decimal) -> Decimal { arbitrary() }
}
// Uint128 * Decimal = floor(u * d / 10^18) (256-bit intermediate); aborts only if the result exceeds 128 bits
impl ops::Mul<Decimal> for Uint128 { type Output = Uint128;
    #[verifier::external_body]
    fn mul(self, rhs: Decimal) -> (r: Uint128)
//%if A
        ensures r.0 as nat == (self.0 as nat) * (rhs.0 as nat) / dd()
//%else
        ensures (self.0 as nat) * (rhs.0 as nat) / dd() < p128(), r.0 as nat == (self.0 as nat) * (rhs.0 as nat) / dd()
//%endif
    { unimplemented!() } }
// closure-contract helpers for `Uint128 * Decimal` (same condition as the operator contract above)
//%if A
pub open spec fn mul_req_ud(u: Uint128, d: Decimal) -> bool { (u.0 as nat) * (d.0 as nat) / dd() < p128() }
pub open spec fn mul_ens_ud(u: Uint128, d: Decimal, r: Uint128) -> bool { r.0 as nat == (u.0 as nat) * (d.0 as nat) / dd() }
//%else
pub open spec fn mul_req_ud(u: Uint128, d: Decimal) -> bool { true }
pub open spec fn mul_ens_ud(u: Uint128, d: Decimal, r: Uint128) -> bool { (u.0 as nat) * (d.0 as nat) / dd() < p128() && r.0 as nat == (u.0 as nat) * (d.0 as nat) / dd() }
//%endif
impl MulSpecImpl<Decimal> for Uint128 {
    open spec fn obeys_mul_spec() -> bool { false }
//%if A
    open spec fn mul_req(self, rhs: Decimal) -> bool { (self.0 as nat) * (rhs.0 as nat) / dd() < p128() }
//%else
    open spec fn mul_req(self, rhs: Decimal) -> bool { true }
//%endif
    open spec fn mul_spec(self, rhs: Decimal) -> Uint128 { arbitrary() }
}

// ---- addresses ----
pub trait StrLike: Sized { spec fn text(&self) -> Seq<char>; }
impl StrLike for String { open spec fn text(&self) -> Seq<char> { self@ } }
impl<'a> StrLike for &'a String { open spec fn text(&self) -> Seq<char> { (*self)@ } }
impl<'a> StrLike for &'a str { open spec fn text(&self) -> Seq<char> { (*self)@ } }
pub struct Addr(pub String);
impl Addr {
    // Addr::unchecked(impl Into<String>): the address text is the argument's text
    #[verifier::external_body] pub fn unchecked<T: StrLike>(s: T) -> (r: Addr) ensures r.0@ == s.text() { unimplemented!() }
    #[verifier::external_body] pub fn as_str(&self) -> (r: &str) ensures r@ == self.0@ { unimplemented!() }
    #[verifier::external_body] pub fn to_string(&self) -> (r: String) ensures r@ == self.0@ { unimplemented!() }
}
// Addr::unchecked(String) / Addr::unchecked(&String): the address text is the argument
#[verifier::external_body] pub fn addr_unchecked_string(s: String) -> (r: Addr) ensures r.0@ == s@ { unimplemented!() }
#[verifier::external_body] pub fn addr_unchecked_ref(s: &String) -> (r: Addr) ensures r.0@ == s@ { unimplemented!() }
impl Clone for Addr { #[verifier::external_body] fn clone(&self) -> (r: Addr) ensures r == *self { unimplemented!() } }
impl PartialEq for Addr { #[verifier::external_body] fn eq(&self, o: &Addr) -> (r: bool) { unimplemented!() } }
impl PartialEqSpecImpl for Addr {
    open spec fn obeys_eq_spec() -> bool { true }
    open spec fn eq_spec(&self, o: &Addr) -> bool { self.0@ == o.0@ }
}
impl PartialEq<Addr> for String { #[verifier::external_body] fn eq(&self, o: &Addr) -> (r: bool) { unimplemented!() } }
impl PartialEqSpecImpl<Addr> for String {
    open spec fn obeys_eq_spec() -> bool { true }
    open spec fn eq_spec(&self, o: &Addr) -> bool { self@ == o.0@ }
}
impl PartialEq<Addr> for &str { #[verifier::external_body] fn eq(&self, o: &Addr) -> (r: bool) { unimplemented!() } }
impl PartialEqSpecImpl<Addr> for &str {
    open spec fn obeys_eq_spec() -> bool { true }
    open spec fn eq_spec(&self, o: &Addr) -> bool { self@ == o.0@ }
}
pub struct CanonicalAddr(pub Vec<u8>);
impl CanonicalAddr {
    #[verifier::external_body] pub fn as_slice(&self) -> (r: &[u8]) ensures r@ == self.0@ { unimplemented!() }
}
impl Clone for CanonicalAddr { #[verifier::external_body] fn clone(&self) -> (r: CanonicalAddr) ensures r == *self { unimplemented!() } }
impl PartialEq for CanonicalAddr { #[verifier::external_body] fn eq(&self, o: &CanonicalAddr) -> (r: bool) { unimplemented!() } }
impl PartialEqSpecImpl for CanonicalAddr {
    open spec fn obeys_eq_spec() -> bool { true }
    open spec fn eq_spec(&self, o: &CanonicalAddr) -> bool { self.0@ == o.0@ }
}
impl From<Vec<u8>> for CanonicalAddr { #[verifier::external_body] fn from(v: Vec<u8>) -> (r: CanonicalAddr) ensures r.0@ == v@ { unimplemented!() } }
impl FromSpecImpl<Vec<u8>> for CanonicalAddr {
    open spec fn obeys_from_spec() -> bool { false }
    open spec fn from_spec(v: Vec<u8>) -> CanonicalAddr { arbitrary() }
}
// Api: address (de)canonicalisation is an uninterpreted partial bijection
pub uninterp spec fn canon_of(human: Seq<char>) -> Seq<u8>;
pub uninterp spec fn human_of(canonical: Seq<u8>) -> Seq<char>;
pub trait Api {
    fn addr_validate(&self, human: &str) -> (r: StdResult<Addr>)
//%if A
        ensures r is Ok, r->Ok_0.0@ == human@;
//%else
        ensures r is Ok ==> r->Ok_0.0@ == human@;
//%endif
    fn addr_canonicalize(&self, human: &str) -> (r: StdResult<CanonicalAddr>)
//%if A
        ensures r is Ok, r->Ok_0.0@ == canon_of(human@);
//%else
        ensures r is Ok ==> r->Ok_0.0@ == canon_of(human@);
//%endif
    fn addr_humanize(&self, canonical: &CanonicalAddr) -> (r: StdResult<Addr>)
//%if A
        // mode A ("can always succeed"): environment services do not fail (address (de)canonicalisation errors are outside the statement of C20)
        ensures r is Ok, r->Ok_0.0@ == human_of(canonical.0@) && canon_of(r->Ok_0.0@) == canonical.0@;
//%else
        ensures r is Ok ==> r->Ok_0.0@ == human_of(canonical.0@) && canon_of(r->Ok_0.0@) == canonical.0@;
//%endif
}

// ---- coins, message info, env ----
pub struct Coin { pub denom: String, pub amount: Uint128 }
impl Clone for Coin { #[verifier::external_body] fn clone(&self) -> (r: Coin) ensures r == *self { unimplemented!() } }
pub struct MessageInfo { pub sender: Addr, pub funds: Vec<Coin> }
impl Clone for MessageInfo { #[verifier::external_body] fn clone(&self) -> (r: MessageInfo) ensures r == *self { unimplemented!() } }
pub struct ContractInfo { pub address: Addr }
pub struct Env { pub contract: ContractInfo }

// ---- binary payloads: serde is modelled as an uninterpreted codec ----
pub struct Binary { pub dummy: u8 }
pub uninterp spec fn bin_of<T>(t: T) -> Binary;
#[verifier::external_body] pub fn to_binary<T>(t: &T) -> (r: StdResult<Binary>)
//%if A
    ensures r is Ok, r->Ok_0 == bin_of::<T>(*t)
//%else
    ensures r is Ok ==> r->Ok_0 == bin_of::<T>(*t)
//%endif
    { unimplemented!() }
// String::to_lowercase: an uninterpreted function of the text
pub uninterp spec fn lower_of(s: Seq<char>) -> Seq<char>;
pub assume_specification[ str::to_lowercase ](s: &str) -> (r: String) ensures r@ == lower_of(s@);
// str::eq_ignore_ascii_case: equality of the ASCII-lower-cased texts (weaker than equality: "uusd" and "UUSD" are different bank denoms)
pub uninterp spec fn ascii_lower_of(s: Seq<char>) -> Seq<char>;
pub assume_specification[ str::eq_ignore_ascii_case ](a: &str, b: &str) -> (r: bool) ensures r == (ascii_lower_of(a@) == ascii_lower_of(b@));
// deserialisation is a deterministic (uninterpreted) function of the bytes
pub uninterp spec fn decode<T>(b: Binary) -> StdResult<T>;
#[verifier::external_body] pub fn from_binary<T>(b: &Binary) -> (r: StdResult<T>) ensures r == decode::<T>(*b) { unimplemented!() }

// ---- messages ----
pub enum BankMsg { Send { to_address: String, amount: Vec<Coin> } }
pub enum WasmMsg {
    Execute { contract_addr: String, msg: Binary, funds: Vec<Coin> },
    Instantiate { admin: Option<String>, code_id: u64, msg: Binary, funds: Vec<Coin>, label: String },
    Migrate { contract_addr: String, new_code_id: u64, msg: Binary },
}
pub enum CosmosMsg { Bank(BankMsg), Wasm(WasmMsg) }
impl From<WasmMsg> for CosmosMsg { fn from(m: WasmMsg) -> (r: CosmosMsg) ensures r == CosmosMsg::Wasm(m) { CosmosMsg::Wasm(m) } }
impl FromSpecImpl<WasmMsg> for CosmosMsg {
    open spec fn obeys_from_spec() -> bool { true }
    open spec fn from_spec(m: WasmMsg) -> CosmosMsg { CosmosMsg::Wasm(m) }
}
pub enum ReplyOn { Always, Error, Success, Never }
pub struct SubMsg { pub id: u64, pub msg: CosmosMsg, pub gas_limit: Option<u64>, pub reply_on: ReplyOn }
impl SubMsg {
    pub fn new(msg: CosmosMsg) -> (r: SubMsg) ensures r.msg == msg, r.reply_on == ReplyOn::Never { SubMsg { id: 0, msg, gas_limit: None, reply_on: ReplyOn::Never } }
}
// Response builder: only the message list is modelled; attributes/events are dropped (rewrite R2)
pub struct Response { pub messages: Vec<SubMsg> }
pub open spec fn plain_msgs(s: Seq<SubMsg>) -> Seq<CosmosMsg> { s.map_values(|m: SubMsg| m.msg) }
impl Response {
    pub open spec fn msgs(&self) -> Seq<CosmosMsg> { plain_msgs(self.messages@) }
    #[verifier::external_body] pub fn new() -> (r: Response) ensures r.messages@ == Seq::<SubMsg>::empty(), r.msgs() == Seq::<CosmosMsg>::empty() { unimplemented!() }
    #[verifier::external_body] pub fn default() -> (r: Response) ensures r.messages@ == Seq::<SubMsg>::empty(), r.msgs() == Seq::<CosmosMsg>::empty() { unimplemented!() }
    #[verifier::external_body] pub fn add_message(self, m: CosmosMsg) -> (r: Response)
        ensures r.messages@.len() == self.messages@.len() + 1, r.msgs() == self.msgs().push(m),
            forall|i: int| 0 <= i < self.messages@.len() ==> r.messages@[i] == self.messages@[i],
            r.messages@[self.messages@.len() as int].reply_on == ReplyOn::Never { unimplemented!() }
    #[verifier::external_body] pub fn add_messages(self, ms: Vec<CosmosMsg>) -> (r: Response)
        ensures r.messages@.len() == self.messages@.len() + ms@.len(), r.msgs() == self.msgs() + ms@, self.msgs().len() == 0 ==> r.msgs() == ms@,
            forall|i: int| 0 <= i < self.messages@.len() ==> r.messages@[i] == self.messages@[i],
            forall|i: int| self.messages@.len() <= i < r.messages@.len() ==> r.messages@[i].reply_on == ReplyOn::Never { unimplemented!() }
    #[verifier::external_body] pub fn add_submessage(self, m: SubMsg) -> (r: Response)
        ensures r.messages@ == self.messages@.push(m), r.msgs() == self.msgs().push(m.msg) { unimplemented!() }
    // R2: `.add_attribute(..)` / `.add_attributes(..)` calls are rewritten to this no-op on the message list
    #[verifier::external_body] pub fn add_attributes_opaque(self) -> (r: Response) ensures r.messages@ == self.messages@, r.msgs() == self.msgs() { unimplemented!() }
}
pub proof fn lemma_plain_msgs_empty() ensures plain_msgs(Seq::<SubMsg>::empty()) == Seq::<CosmosMsg>::empty() {
    assert(plain_msgs(Seq::<SubMsg>::empty()) =~= Seq::<CosmosMsg>::empty());
}

// ---- cw20 ----
pub enum Cw20ExecuteMsg {
    Transfer { recipient: String, amount: Uint128 },
    Burn { amount: Uint128 },
    Send { contract: String, amount: Uint128, msg: Binary },
    TransferFrom { owner: String, recipient: String, amount: Uint128 },
    Mint { recipient: String, amount: Uint128 },
}
pub struct Cw20ReceiveMsg { pub sender: String, pub amount: Uint128, pub msg: Binary }
pub struct TokenInfoResponse { pub name: String, pub symbol: String, pub decimals: u8, pub total_supply: Uint128 }

// ---- the chain state seen through queries: an uninterpreted ledger ----
pub ghost struct World {
    pub bank: Map<(Seq<char>, Seq<char>), nat>,   // (address, denom) -> balance
    pub cw20: Map<(Seq<char>, Seq<char>), nat>,   // (token contract, holder) -> balance
    pub supply: Map<Seq<char>, nat>,              // token contract -> total supply
    pub tok_decimals: Map<Seq<char>, u8>,
}
impl World {
    pub open spec fn bank_bal(self, addr: Seq<char>, denom: Seq<char>) -> nat { if self.bank.dom().contains((addr, denom)) { self.bank[(addr, denom)] } else { 0 } }
    pub open spec fn tok_bal(self, token: Seq<char>, holder: Seq<char>) -> nat { if self.cw20.dom().contains((token, holder)) { self.cw20[(token, holder)] } else { 0 } }
    pub open spec fn tok_supply(self, token: Seq<char>) -> nat { if self.supply.dom().contains(token) { self.supply[token] } else { 0 } }
}
#[derive(Clone, Copy)]
pub struct QuerierWrapper { pub w: Ghost<World> }
impl QuerierWrapper { pub open spec fn world(&self) -> World { self.w@ } }


// ---- std / small dependencies used by the pair ----
impl Eq for Uint128 {}
impl Ord for Uint128 { #[verifier::external_body] fn cmp(&self, o: &Uint128) -> (r: Ordering) { unimplemented!() } }
impl OrdSpecImpl for Uint128 {
    open spec fn obeys_cmp_spec() -> bool { true }
    open spec fn cmp_spec(&self, o: &Uint128) -> Ordering {
        if self.0 < o.0 { Ordering::Less } else if self.0 == o.0 { Ordering::Equal } else { Ordering::Greater }
    }
}
// std::cmp::min(a, b): b only when b < a
pub assume_specification<T: Ord>[ core::cmp::min ](a: T, b: T) -> (r: T)
    ensures T::obeys_cmp_spec() ==> r == (if b.cmp_spec(&a) == Ordering::Less { b } else { a });
// str::starts_with / ends_with with a string pattern (&String, &str, String): prefix / suffix of the text
pub uninterp spec fn pat_text<P>(p: P) -> Seq<char>;
pub open spec fn is_prefix(p: Seq<char>, s: Seq<char>) -> bool { p.len() <= s.len() && s.subrange(0, p.len() as int) == p }
pub open spec fn is_suffix(p: Seq<char>, s: Seq<char>) -> bool { p.len() <= s.len() && s.subrange(s.len() - p.len(), s.len() as int) == p }
#[verifier::allow(undeclared_external_trait)]
pub assume_specification<P: core::str::pattern::Pattern>[ str::starts_with ](s: &str, p: P) -> (r: bool)
    ensures r == is_prefix(pat_text(p), s@);
pub broadcast proof fn axiom_pat_string(p: &String) ensures #[trigger] pat_text::<&String>(p) == p@ { admit(); }
pub broadcast proof fn axiom_pat_str(p: &str) ensures #[trigger] pat_text::<&str>(p) == p@ { admit(); }
// slice::swap / slice::contains (std)
pub assume_specification<T>[ <[T]>::swap ](s: &mut [T], a: usize, b: usize)
//%if A
    requires a < old(s)@.len(), b < old(s)@.len()
    ensures final(s)@ == old(s)@.update(a as int, old(s)@[b as int]).update(b as int, old(s)@[a as int]);
//%else
    ensures a < old(s)@.len() && b < old(s)@.len(), final(s)@ == old(s)@.update(a as int, old(s)@[b as int]).update(b as int, old(s)@[a as int]);
//%endif
pub assume_specification<T: PartialEq>[ <[T]>::contains ](s: &[T], x: &T) -> (r: bool)
    ensures T::obeys_eq_spec() ==> r == exists|i: int| 0 <= i < s@.len() && (#[trigger] s@[i]).eq_spec(x);
// Option::filter(p): keeps the value exactly when the predicate accepts it
pub assume_specification<T, P: FnOnce(&T) -> bool>[ Option::<T>::filter ](o: Option<T>, p: P) -> (r: Option<T>)
    requires o is Some ==> p.requires((&o->Some_0,)),
    ensures o is None ==> r is None,
        r is Some ==> o is Some && r == o && p.ensures((&o->Some_0,), true),
        o is Some && r is None ==> p.ensures((&o->Some_0,), false);
// std::cmp::max(a, b): b unless a > b
// Result::unwrap_or_else (std): the Ok payload, else whatever the fallback closure returns for the error
pub assume_specification<T, E, F: FnOnce(E) -> T>[ Result::<T, E>::unwrap_or_else ](res: Result<T, E>, op: F) -> (r: T)
    requires res is Err ==> op.requires((res->Err_0,)),
    ensures match res { Ok(t) => r == t, Err(e) => op.ensures((e,), r) };
pub assume_specification<T: Ord>[ core::cmp::max ](a: T, b: T) -> (r: T)
    ensures T::obeys_cmp_spec() ==> r == (if a.cmp_spec(&b) == Ordering::Greater { a } else { b });
// u64::pow: aborts on overflow (overflow-checks = true)
pub assume_specification[ u64::pow ](b: u64, e: u32) -> (r: u64)
//%if A
    requires vstd::arithmetic::power::pow(b as int, e as nat) <= u64::MAX
    ensures r as int == vstd::arithmetic::power::pow(b as int, e as nat);
//%else
    ensures vstd::arithmetic::power::pow(b as int, e as nat) <= u64::MAX, r as int == vstd::arithmetic::power::pow(b as int, e as nat);
//%endif
// u128 multiplication with overflow-checks = true (declared rewrite of `a * b` on primitives)
//%if A
pub fn rt_mul_u128(a: u128, b: u128) -> (r: u128) requires a * b <= u128::MAX ensures r == a * b { a * b }
//%else
#[verifier::external_body] pub fn rt_mul_u128(a: u128, b: u128) -> (r: u128) ensures a * b <= u128::MAX, r == a * b { unimplemented!() }
//%endif
// integer-sqrt 0.1.5: floor square root
pub trait IntegerSquareRoot: Sized { fn integer_sqrt(&self) -> Self; }
impl IntegerSquareRoot for u128 {
    #[verifier::external_body] fn integer_sqrt(&self) -> (r: u128) ensures (r as nat) * (r as nat) <= *self as nat, (*self as nat) < (r as nat + 1) * (r as nat + 1) { unimplemented!() }
}

// ---- factory-side queries and reply parsing: ASSUMED ----
pub struct Reply { pub id: u64, pub dummy: u8 }
pub struct MsgInstantiateContractResponse { pub contract_address: String, pub data: Option<Binary> }
pub struct ParseReplyError { pub dummy: u8 }
pub uninterp spec fn reply_contract_addr(msg: Reply) -> Seq<char>;    // address of the contract instantiated by the sub-message this reply answers
#[verifier::external_body] pub fn parse_reply_instantiate_data(msg: Reply) -> (r: Result<MsgInstantiateContractResponse, ParseReplyError>)
    ensures r is Ok ==> r->Ok_0.contract_address@ == reply_contract_addr(msg) { unimplemented!() }
