// ===== contracts/halo-pair/src/state.rs : cw-storage-plus Items, modelled as fields of a storage record (ASSUMED) =====
//%item contracts/halo-pair/src/state.rs struct Config
pub struct Storage { pub config: Option<Config>, pub pair_info: Option<PairInfoRaw>, pub commission: Option<Decimal256> }
pub struct ItemConfig { pub dummy: u8 }
pub struct ItemPairInfo { pub dummy: u8 }
pub struct ItemCommission { pub dummy: u8 }
impl ItemConfig {
    #[verifier::external_body] pub fn load(&self, s: &Storage) -> (r: StdResult<Config>) ensures r is Ok ==> s.config is Some && s.config->Some_0 == r->Ok_0 { unimplemented!() }
    #[verifier::external_body] pub fn save(&self, s: &mut Storage, v: &Config) -> (r: StdResult<()>)
        ensures r is Ok ==> final(s).config == Some(*v), r is Err ==> final(s).config == old(s).config, final(s).pair_info == old(s).pair_info, final(s).commission == old(s).commission { unimplemented!() }
}
impl ItemPairInfo {
    #[verifier::external_body] pub fn load(&self, s: &Storage) -> (r: StdResult<PairInfoRaw>)
//%if A
        requires s.pair_info is Some ensures r is Ok, s.pair_info->Some_0 == r->Ok_0
//%else
        ensures r is Ok ==> s.pair_info is Some && s.pair_info->Some_0 == r->Ok_0
//%endif
    { unimplemented!() }
    #[verifier::external_body] pub fn save(&self, s: &mut Storage, v: &PairInfoRaw) -> (r: StdResult<()>)
        ensures r is Ok ==> final(s).pair_info == Some(*v), r is Err ==> final(s).pair_info == old(s).pair_info, final(s).config == old(s).config, final(s).commission == old(s).commission { unimplemented!() }
}
impl ItemCommission {
    #[verifier::external_body] pub fn save(&self, s: &mut Storage, v: &Decimal256) -> (r: StdResult<()>)
        ensures r is Ok ==> final(s).commission == Some(*v), r is Err ==> final(s).commission == old(s).commission, final(s).config == old(s).config, final(s).pair_info == old(s).pair_info { unimplemented!() }
    #[verifier::external_body] pub fn load(&self, s: &Storage) -> (r: StdResult<Decimal256>) ensures r is Ok ==> s.commission is Some && s.commission->Some_0 == r->Ok_0 { unimplemented!() }
}
pub const CONFIG: ItemConfig = ItemConfig { dummy: 0 };
pub const PAIR_INFO: ItemPairInfo = ItemPairInfo { dummy: 0 };
pub const COMMISSION_RATE_INFO: ItemCommission = ItemCommission { dummy: 0 };
pub struct DepsMut<'a> { pub storage: &'a mut Storage, pub api: &'a dyn Api, pub querier: QuerierWrapper }
pub struct Deps<'a> { pub storage: &'a Storage, pub api: &'a dyn Api, pub querier: QuerierWrapper }
// cw2::set_contract_version writes the version item only: ASSUMED not to touch the items modelled here
#[verifier::external_body] pub fn set_contract_version(s: &mut Storage, name: &str, version: &str) -> (r: StdResult<()>) ensures *final(s) == *old(s) { unimplemented!() }
pub const CONTRACT_NAME: &'static str = "crates.io:halo-pair";
pub const CONTRACT_VERSION: &'static str = "1.0.0";
pub const INSTANTIATE_REPLY_ID: u64 = 1;
pub struct Cw20Coin { pub address: String, pub amount: Uint128 }
pub struct MinterResponse { pub minter: String, pub cap: Option<Uint128> }
