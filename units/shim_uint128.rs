// ===== ASSUMED contracts for cosmwasm_std::Uint128 (v1.1.8) =====
#[derive(Copy, Clone)]
pub struct Uint128(pub u128);
impl Uint128 {
    pub open spec fn v(&self) -> nat { self.0 as nat }
    #[verifier::external_body] pub fn u128(&self) -> (r: u128) ensures r == self.0 { unimplemented!() }
    #[verifier::external_body] pub fn zero() -> (r: Uint128) ensures r.0 == 0 { unimplemented!() }
    #[verifier::external_body] pub fn one() -> (r: Uint128) ensures r.0 == 1 { unimplemented!() }
    #[verifier::external_body] pub fn is_zero(&self) -> (r: bool) ensures r == (self.0 == 0) { unimplemented!() }
}
impl From<u128> for Uint128 { #[verifier::external_body] fn from(x: u128) -> (r: Uint128) ensures r.0 == x { unimplemented!() } }
impl FromSpecImpl<u128> for Uint128 {
    open spec fn obeys_from_spec() -> bool { true }
    open spec fn from_spec(x: u128) -> Uint128 { Uint128(x) }
}
impl PartialEq for Uint128 { #[verifier::external_body] fn eq(&self, o: &Uint128) -> (r: bool) { unimplemented!() } }
impl PartialEqSpecImpl for Uint128 {
    open spec fn obeys_eq_spec() -> bool { true }
    open spec fn eq_spec(&self, o: &Uint128) -> bool { self.0 == o.0 }
}
impl PartialOrd for Uint128 { #[verifier::external_body] fn partial_cmp(&self, o: &Uint128) -> (r: Option<Ordering>) { unimplemented!() } }
impl PartialOrdSpecImpl for Uint128 {
    open spec fn obeys_partial_cmp_spec() -> bool { true }
    open spec fn partial_cmp_spec(&self, o: &Uint128) -> Option<Ordering> {
        if self.0 < o.0 { Some(Ordering::Less) } else if self.0 == o.0 { Some(Ordering::Equal) } else { Some(Ordering::Greater) }
    }
}
