// ===== ASSUMED contracts for cosmwasm_std::Uint128 (v1.1.8) =====
#[derive(Copy, Clone)]
pub struct Uint128(pub u128);
impl Uint128 {
    pub open spec fn v(&self) -> nat { self.0 as nat }
    #[verifier::external_body] pub fn u128(&self) -> (r: u128) ensures r == self.0 { unimplemented!() }
    #[verifier::external_body] pub fn zero() -> (r: Uint128) ensures r.0 == 0 { unimplemented!() }
    #[verifier::external_body] pub fn one() -> (r: Uint128) ensures r.0 == 1 { unimplemented!() }
    #[verifier::external_body] pub fn is_zero(&self) -> (r: bool) ensures r == (self.0 == 0) { unimplemented!() }
}
impl From<u128> for Uint128 { #[verifier::external_body] fn from(x: u128) -> (r: Uint128) ensures r.0 == x { unimplemented!() } }
impl FromSpecImpl<u128> for Uint128 {
    open spec fn obeys_from_spec() -> bool { true }
    open spec fn from_spec(x: u128) -> Uint128 { Uint128(x) }
}
impl PartialEq for Uint128 { #[verifier::external_body] fn eq(&self, o: &Uint128) -> (r: bool) { unimplemented!() } }
impl PartialEqSpecImpl for Uint128 {
    open spec fn obeys_eq_spec() -> bool { true }
    open spec fn eq_spec(&self, o: &Uint128) -> bool { self.0 == o.0 }
}
impl PartialOrd for Uint128 { #[verifier::external_body] fn partial_cmp(&self, o: &Uint128) -> (r: Option<Ordering>) { unimplemented!() } }
impl PartialOrdSpecImpl for Uint128 {
    open spec fn obeys_partial_cmp_spec() -> bool { true }
    open spec fn partial_cmp_spec(&self, o: &Uint128) -> Option<Ordering> {
        if self.0 < o.0 { Some(Ordering::Less) } else if self.0 == o.0 { Some(Ordering::Equal) } else { Some(Ordering::Greater) }
    }
}
// cosmwasm-std 1.x: `+`, `-`, `*`, `/` on Uint128 are checked and abort on overflow / underflow / division by zero
impl ops::Add for Uint128 { type Output = Uint128;
    #[verifier::external_body]
    fn add(self, rhs: Uint128) -> (r: Uint128)
//%if A
        ensures r.0 as int == self.0 + rhs.0
//%else
        ensures self.0 + rhs.0 <= u128::MAX, r.0 as int == self.0 + rhs.0
//%endif
    { unimplemented!() } }
impl AddSpecImpl for Uint128 {
    open spec fn obeys_add_spec() -> bool { false }
//%if A
    open spec fn add_req(self, rhs: Uint128) -> bool { self.0 + rhs.0 <= u128::MAX }
//%else
    open spec fn add_req(self, rhs: Uint128) -> bool { true }
//%endif
    open spec fn add_spec(self, rhs: Uint128) -> Uint128 { arbitrary() }
}
impl ops::Sub for Uint128 { type Output = Uint128;
    #[verifier::external_body]
    fn sub(self, rhs: Uint128) -> (r: Uint128)
//%if A
        ensures r.0 as int == self.0 - rhs.0
//%else
        ensures self.0 >= rhs.0, r.0 as int == self.0 - rhs.0
//%endif
    { unimplemented!() } }
impl SubSpecImpl for Uint128 {
    open spec fn obeys_sub_spec() -> bool { false }
//%if A
    open spec fn sub_req(self, rhs: Uint128) -> bool { self.0 >= rhs.0 }
//%else
    open spec fn sub_req(self, rhs: Uint128) -> bool { true }
//%endif
    open spec fn sub_spec(self, rhs: Uint128) -> Uint128 { arbitrary() }
}
impl ops::Mul for Uint128 { type Output = Uint128;
    #[verifier::external_body]
    fn mul(self, rhs: Uint128) -> (r: Uint128)
//%if A
        ensures r.0 as int == self.0 * rhs.0
//%else
        ensures self.0 * rhs.0 <= u128::MAX, r.0 as int == self.0 * rhs.0
//%endif
    { unimplemented!() } }
impl MulSpecImpl for Uint128 {
    open spec fn obeys_mul_spec() -> bool { false }
//%if A
    open spec fn mul_req(self, rhs: Uint128) -> bool { self.0 * rhs.0 <= u128::MAX }
//%else
    open spec fn mul_req(self, rhs: Uint128) -> bool { true }
//%endif
    open spec fn mul_spec(self, rhs: Uint128) -> Uint128 { arbitrary() }
}
impl ops::Div for Uint128 { type Output = Uint128;
    #[verifier::external_body]
    fn div(self, rhs: Uint128) -> (r: Uint128)
//%if A
        ensures r.0 as int == (self.0 as int) / (rhs.0 as int)
//%else
        ensures rhs.0 != 0, r.0 as int == (self.0 as int) / (rhs.0 as int)
//%endif
    { unimplemented!() } }
impl DivSpecImpl for Uint128 {
    open spec fn obeys_div_spec() -> bool { false }
//%if A
    open spec fn div_req(self, rhs: Uint128) -> bool { rhs.0 != 0 }
//%else
    open spec fn div_req(self, rhs: Uint128) -> bool { true }
//%endif
    open spec fn div_spec(self, rhs: Uint128) -> Uint128 { arbitrary() }
}
