// ===== lemma library for the swap formula: property statements as pure facts over naturals =====


// ---- spec of the swap formula, in the shape the property statement gives it ----
pub open spec fn sw_r(x: nat, y: nat, a: nat) -> nat { (x * y) * dd() / (x + a) }
pub open spec fn sw_t(x: nat, y: nat, a: nat) -> nat { (y * dd() - sw_r(x, y, a)) as nat }
pub open spec fn sw_gross(x: nat, y: nat, a: nat) -> nat { sw_t(x, y, a) / dd() }
pub open spec fn sw_comm(x: nat, y: nat, a: nat, cr: nat) -> nat { sw_gross(x, y, a) * cr / dd() }
pub open spec fn sw_n(x: nat, y: nat, a: nat, cr: nat) -> nat { (sw_gross(x, y, a) - sw_comm(x, y, a, cr)) as nat }
pub open spec fn sw_ideal(x: nat, y: nat, a: nat) -> nat { (y * a) * dd() / x / dd() }
pub open spec fn sw_window(x: nat, y: nat, a: nat) -> bool {
    let s = x + a; let r0 = (y * a) % s;
    r0 > 0 && dd() * (s - r0) < s
}

pub proof fn lemma_scaled_div(n: nat, x: nat, d: nat) requires x > 0, d > 0 ensures (n * d / x) / d == n / x {
    lemma_div_denominator(n as int * d as int, x as int, d as int);
    lemma_div_multiples_vanish_quotient(d as int, n as int, x as int);
    assert(n * d == d * n) by(nonlinear_arith);
    assert(x * d == d * x) by(nonlinear_arith);
}

// T = ceil(D*y*a/s):  y*a*D <= T*s < y*a*D + s
pub proof fn lemma_t_bounds(x: nat, y: nat, a: nat)
    requires x + a > 0
    ensures
        sw_r(x, y, a) <= y * dd(),
        (y * a) * dd() <= sw_t(x, y, a) * (x + a),
        sw_t(x, y, a) * (x + a) < (y * a) * dd() + (x + a),
{
    let s = x + a; let d = dd(); let p = (x * y) * d; let r = p / s;
    lemma_fundamental_div_mod(p as int, s as int);
    lemma_mod_bound(p as int, s as int);
    assert(p == s * r + p % s);
    assert(s * r <= p && p < s * r + s);
    assert(p <= (y * d) * s) by(nonlinear_arith) requires p == (x * y) * d, s == x + a;
    assert(r <= y * d) by(nonlinear_arith) requires s * r <= p, p <= (y * d) * s, s > 0;
    let t = (y * d - r) as nat;
    assert(t * s == (y * d) * s - r * s) by(nonlinear_arith) requires t == y * d - r, r <= y * d;
    assert((y * d) * s - p == (y * a) * d) by(nonlinear_arith) requires p == (x * y) * d, s == x + a;
    assert(r * s == s * r) by(nonlinear_arith);
}

pub proof fn lemma_c06_core(ya: int, s: int, d: int, cr: int, t: int, g: int, c: int, n: int)
    requires s > 0, d > 0, 0 <= cr <= d, ya >= 0, t >= 0, g >= 0, c >= 0,
        ya * d <= t * s, t * s < ya * d + s,
        g * d <= t, t < g * d + d,
        c * d <= g * cr, g * cr < c * d + d,
        n == g - c,
    ensures
        (n + 1) * s * d > ya * (d - cr),
        n * s * d < ya * (d - cr) + s * d,
        c <= g,
{
    let e = d - cr;
    assert(c <= g) by(nonlinear_arith) requires c * d <= g * cr, 0 <= cr <= d, d > 0, g >= 0, c >= 0;
    // n*d bounds
    assert(n * d == g * d - c * d) by(nonlinear_arith) requires n == g - c;
    assert(g * d - g * cr == g * e) by(nonlinear_arith) requires e == d - cr;
    assert(n * d >= g * e);
    assert(n * d <= g * e + d - 1);
    // g*d*s bounds
    assert(g * d * s <= t * s) by(nonlinear_arith) requires g * d <= t, s > 0;
    assert((g * d + d) * s > t * s) by(nonlinear_arith) requires t < g * d + d, s > 0;
    assert((g * d + d) * s == g * d * s + d * s) by(nonlinear_arith);
    let k = g * d * s;
    assert(k <= ya * d + s - 1);
    assert(k >= ya * d - d * s + 1);
    // lower
    assert((n + 1) * s * d > ya * e) by {
        if e == 0 {
            assert((n + 1) * s * d > 0) by(nonlinear_arith) requires n >= 0, s > 0, d > 0;
            assert(ya * e == 0) by(nonlinear_arith) requires e == 0;
        } else {
            // (n+1)*d >= g*e + d
            assert((n + 1) * d == n * d + d) by(nonlinear_arith);
            assert((n + 1) * d * (s * d) >= (g * e + d) * (s * d)) by(nonlinear_arith) requires (n + 1) * d >= g * e + d, s > 0, d > 0;
            assert((g * e + d) * (s * d) == k * e + d * s * d) by(nonlinear_arith) requires k == g * d * s;
            assert(k * e >= (ya * d - d * s + 1) * e) by(nonlinear_arith) requires k >= ya * d - d * s + 1, e > 0;
            assert((ya * d - d * s + 1) * e + d * s * d == ya * d * e + d * s * cr + e) by(nonlinear_arith) requires e == d - cr;
            assert(d * s * cr >= 0) by(nonlinear_arith) requires d > 0, s > 0, cr >= 0;
            assert((n + 1) * d * (s * d) > ya * d * e);
            assert((n + 1) * d * (s * d) == ((n + 1) * s * d) * d) by(nonlinear_arith);
            assert(ya * d * e == (ya * e) * d) by(nonlinear_arith);
            assert((n + 1) * s * d > ya * e) by(nonlinear_arith) requires ((n + 1) * s * d) * d > (ya * e) * d, d > 0;
        }
    }
    // upper
    assert(n * s * d < ya * e + s * d) by {
        assert(n * d * (s * d) <= (g * e + d - 1) * (s * d)) by(nonlinear_arith) requires n * d <= g * e + d - 1, s > 0, d > 0;
        assert((g * e + d - 1) * (s * d) == k * e + (d - 1) * (s * d)) by(nonlinear_arith) requires k == g * d * s;
        assert(k * e <= (ya * d + s - 1) * e) by(nonlinear_arith) requires k <= ya * d + s - 1, e >= 0;
        assert((ya * d + s - 1) * e == ya * d * e + (s - 1) * e) by(nonlinear_arith);
        assert((s - 1) * e <= (s - 1) * d) by(nonlinear_arith) requires e <= d, s >= 1;
        assert((s - 1) * d + (d - 1) * (s * d) < s * d * d) by(nonlinear_arith) requires s >= 1, d >= 1;
        assert(n * d * (s * d) < ya * d * e + s * d * d);
        assert(n * d * (s * d) == (n * s * d) * d) by(nonlinear_arith);
        assert(ya * d * e + s * d * d == (ya * e + s * d) * d) by(nonlinear_arith);
        assert(n * s * d < ya * e + s * d) by(nonlinear_arith) requires (n * s * d) * d < (ya * e + s * d) * d, d > 0;
    }
}

// g = floor(ceil(d*ya/s)/d) is q or q+1, and q+1 exactly inside the window
pub proof fn lemma_c01_core(ya: int, s: int, d: int, t: int, g: int, q: int, r0: int)
    requires s > 0, d > 0, ya >= 0, t >= 0, g >= 0, q >= 0,
        ya * d <= t * s, t * s < ya * d + s,
        g * d <= t, t < g * d + d,
        ya == q * s + r0, 0 <= r0 < s,
    ensures
        q <= g <= q + 1,
        (g == q + 1) <==> (d * (s - r0) < s),
{
    assert(ya * d == q * s * d + r0 * d) by(nonlinear_arith) requires ya == q * s + r0;
    assert((g * d + d) * s > t * s) by(nonlinear_arith) requires t < g * d + d, s > 0;
    assert(g * d * s <= t * s) by(nonlinear_arith) requires g * d <= t, s > 0;
    assert(r0 * d >= 0 && r0 * d <= (s - 1) * d) by(nonlinear_arith) requires 0 <= r0 < s, d > 0;
    assert((g * d + d) * s == (g + 1) * (d * s)) by(nonlinear_arith);
    assert(q * s * d == q * (d * s)) by(nonlinear_arith);
    assert(g * d * s == g * (d * s)) by(nonlinear_arith);
    let m = d * s;
    assert(m > 0) by(nonlinear_arith) requires d > 0, s > 0, m == d * s;
    // (g+1)*m > q*m  ==> g >= q
    assert(g + 1 > q) by(nonlinear_arith) requires (g + 1) * m > q * m, m > 0;
    // g*m < q*m + (s-1)*d + s <= q*m + 2m  ==> g <= q+1
    assert((s - 1) * d + s < 2 * m) by(nonlinear_arith) requires m == d * s, d >= 1, s >= 1;
    assert(g < q + 2) by(nonlinear_arith) requires g * m < q * m + 2 * m, m > 0;
    if g == q + 1 {
        assert((q + 1) * m == q * m + m) by(nonlinear_arith);
        assert(m < r0 * d + s);
        assert(d * (s - r0) == m - r0 * d) by(nonlinear_arith) requires m == d * s;
    }
    if d * (s - r0) < s {
        assert(d * (s - r0) == m - r0 * d) by(nonlinear_arith) requires m == d * s;
        // t*s >= q*m + r0*d > q*m + m - s
        assert(t * s > (q * d + d - 1) * s) by(nonlinear_arith) requires t * s >= q * m + r0 * d, r0 * d > m - s, m == d * s;
        assert(t > q * d + d - 1) by(nonlinear_arith) requires t * s > (q * d + d - 1) * s, s > 0;
        assert(g * d + d > (q + 1) * d) by(nonlinear_arith) requires t < g * d + d, t >= q * d + d;
        assert(g + 1 > q + 1) by(nonlinear_arith) requires g * d + d > (q + 1) * d, d > 0;
    }
}

// T (= least integer with T*s >= ya*d) is monotone in the offer
pub proof fn lemma_t_mono(x: int, y: int, a1: int, a2: int, d: int, t1: int, t2: int)
    requires x >= 0, y >= 0, 0 <= a1 <= a2, d > 0, x + a1 > 0, t1 >= 0, t2 >= 0,
        t1 * (x + a1) < (y * a1) * d + (x + a1),
        (y * a2) * d <= t2 * (x + a2),
    ensures t1 <= t2
{
    let s1 = x + a1; let s2 = x + a2;
    if t1 > t2 {
        assert((t1 - 1) * s1 < (y * a1) * d) by(nonlinear_arith) requires t1 * s1 < (y * a1) * d + s1;
        assert((t1 - 1) * s1 * s2 < (y * a1) * d * s2) by(nonlinear_arith) requires (t1 - 1) * s1 < (y * a1) * d, s2 > 0;
        assert(t2 * s2 * s1 >= (y * a2) * d * s1) by(nonlinear_arith) requires (y * a2) * d <= t2 * s2, s1 > 0;
        assert((t1 - 1) * s1 * s2 >= t2 * s2 * s1) by(nonlinear_arith) requires t1 - 1 >= t2, s1 > 0, s2 > 0, t2 >= 0;
        assert(a1 * s2 <= a2 * s1) by(nonlinear_arith) requires s1 == x + a1, s2 == x + a2, a1 <= a2, x >= 0, a1 >= 0;
        assert((y * a1) * d * s2 == (y * d) * (a1 * s2)) by(nonlinear_arith);
        assert((y * a2) * d * s1 == (y * d) * (a2 * s1)) by(nonlinear_arith);
        assert((y * d) * (a1 * s2) <= (y * d) * (a2 * s1)) by(nonlinear_arith) requires a1 * s2 <= a2 * s1, y >= 0, d > 0;
        assert(false);
    }
}

// g - floor(g*cr/d) is monotone in g when cr <= d
pub proof fn lemma_net_mono(g1: int, g2: int, cr: int, d: int, c1: int, c2: int)
    requires 0 <= g1 <= g2, 0 <= cr <= d, d > 0,
        c1 * d <= g1 * cr, g1 * cr < c1 * d + d,
        c2 * d <= g2 * cr, g2 * cr < c2 * d + d,
    ensures g1 - c1 <= g2 - c2
{
    assert((g2 - g1) * cr <= (g2 - g1) * d) by(nonlinear_arith) requires g1 <= g2, 0 <= cr <= d;
    assert(g2 * cr - g1 * cr == (g2 - g1) * cr) by(nonlinear_arith);
    assert((c2 - c1 - 1) * d == c2 * d - c1 * d - d) by(nonlinear_arith);
    assert((c2 - c1 - 1) * d < (g2 - g1) * d);
    assert(c2 - c1 - 1 < g2 - g1) by(nonlinear_arith) requires (c2 - c1 - 1) * d < (g2 - g1) * d, d > 0;
}

// ---- the property statements (C01, C06) as named predicates over the observable result (n, spread, c) ----
// result is pinned to the spec functions (used by C12: simulation and execution go through the same function)
pub open spec fn swap_pinned(x: nat, y: nat, a: nat, cr: nat, n: nat, sp: nat, c: nat) -> bool {
    x > 0 && n == sw_n(x, y, a, cr) && c == sw_comm(x, y, a, cr) && sp + sw_gross(x, y, a) == sw_ideal(x, y, a) && c <= sw_gross(x, y, a)
}
// C06: n + commission + spread == floor(a*y/x)
pub open spec fn c06_sum(x: nat, y: nat, a: nat, n: nat, sp: nat, c: nat) -> bool { x > 0 && n + c + sp == (a * y) / x }
// C06: commission == floor(c * (n + commission))
pub open spec fn c06_commission(cr: nat, n: nat, c: nat) -> bool { c == (n + c) * cr / dd() }
// C06: g*(1-c) - 1 < n   with g = y*a/(x+a), cross-multiplied by (x+a)*D
pub open spec fn c06_lower(x: nat, y: nat, a: nat, cr: nat, n: nat) -> bool { cr <= dd() ==> (n + 1) * (x + a) * dd() > (y * a) * (dd() - cr) }
// C06: n < g*(1-c) + 1
pub open spec fn c06_upper(x: nat, y: nat, a: nat, cr: nat, n: nat) -> bool { cr <= dd() ==> n * (x + a) * dd() < (y * a) * (dd() - cr) + (x + a) * dd() }
// C01: n <= y*a/(x+a); product of reserves does not drop; ask reserve stays positive
pub open spec fn c01_no_overpay(x: nat, y: nat, a: nat, n: nat) -> bool { n * (x + a) <= y * a && (x + a) * (y - n) >= x * y && (y > 0 ==> n < y) }
pub open spec fn c01_window_bound(x: nat, y: nat, a: nat, n: nat) -> bool { n <= (y * a) / (x + a) + 1 && n <= y }

pub proof fn lemma_swap_props(x: nat, y: nat, a: nat, cr: nat)
    requires x > 0
    ensures
        // C06: n + commission + spread == floor(a*y/x)   (spread = ideal - gross)
        sw_ideal(x, y, a) == (y * a) / x,
        // C06: g*(1-c) - 1 < n < g*(1-c) + 1 with g = y*a/(x+a), cross-multiplied by (x+a)*D
        cr <= dd() ==> (sw_n(x, y, a, cr) + 1) * (x + a) * dd() > (y * a) * (dd() - cr),
        cr <= dd() ==> sw_n(x, y, a, cr) * (x + a) * dd() < (y * a) * (dd() - cr) + (x + a) * dd(),
        cr <= dd() ==> sw_comm(x, y, a, cr) <= sw_gross(x, y, a),
        // C01: outside the rounding window the payout never exceeds y*a/(x+a)
        !sw_window(x, y, a) ==> sw_gross(x, y, a) * (x + a) <= y * a,
        !sw_window(x, y, a) && y > 0 ==> sw_gross(x, y, a) < y,
        sw_window(x, y, a) ==> sw_gross(x, y, a) == (y * a) / (x + a) + 1,
        sw_gross(x, y, a) <= (y * a) / (x + a) + 1,
        sw_gross(x, y, a) <= y,
{
    let d = dd(); let s = x + a; let ya = y * a;
    lemma_scaled_div(ya, x, d);
    lemma_t_bounds(x, y, a);
    let t = sw_t(x, y, a); let g = sw_gross(x, y, a); let c = sw_comm(x, y, a, cr); let n = sw_n(x, y, a, cr);
    lemma_fundamental_div_mod(t as int, d as int); lemma_mod_bound(t as int, d as int);
    assert(g * d == d * g) by(nonlinear_arith);
    lemma_fundamental_div_mod((g * cr) as int, d as int); lemma_mod_bound((g * cr) as int, d as int);
    assert(c * d == d * c) by(nonlinear_arith);
    if cr <= d {
        lemma_c06_core(ya as int, s as int, d as int, cr as int, t as int, g as int, c as int, g as int - c as int);
    }
    let q = ya / s; let r0 = ya % s;
    lemma_fundamental_div_mod(ya as int, s as int); lemma_mod_bound(ya as int, s as int);
    assert(q * s == s * q) by(nonlinear_arith);
    lemma_c01_core(ya as int, s as int, d as int, t as int, g as int, q as int, r0 as int);
    assert(d * (s - r0) < s <==> sw_window(x, y, a)) by {
        if d * (s - r0) < s && r0 == 0 { assert(d * s >= s) by(nonlinear_arith) requires d >= 1, s >= 1; }
    }
    assert(q * s <= ya);
    if !sw_window(x, y, a) { assert(g * s <= ya) by(nonlinear_arith) requires g <= q, q * s <= ya, s > 0; }
    if y > 0 {
        assert(ya < y * s) by(nonlinear_arith) requires ya == y * a, s == x + a, x > 0, y > 0;
        assert(q < y) by(nonlinear_arith) requires q * s <= ya, ya < y * s, s > 0;
    } else {
        assert(ya == 0) by(nonlinear_arith) requires ya == y * a, y == 0;
        assert(q == 0) by(nonlinear_arith) requires q * s <= ya, ya == 0, s > 0;
        assert(r0 == 0);
    }
}

// C06: the output never decreases when the offer grows
pub proof fn lemma_swap_mono(x: nat, y: nat, a1: nat, a2: nat, cr: nat)
    requires x > 0, a1 <= a2, cr <= dd()
    ensures sw_n(x, y, a1, cr) <= sw_n(x, y, a2, cr), sw_gross(x, y, a1) <= sw_gross(x, y, a2)
{
    let d = dd();
    lemma_t_bounds(x, y, a1); lemma_t_bounds(x, y, a2);
    let t1 = sw_t(x, y, a1); let t2 = sw_t(x, y, a2);
    lemma_t_mono(x as int, y as int, a1 as int, a2 as int, d as int, t1 as int, t2 as int);
    lemma_div_is_ordered(t1 as int, t2 as int, d as int);
    let g1 = sw_gross(x, y, a1); let g2 = sw_gross(x, y, a2);
    let c1 = sw_comm(x, y, a1, cr); let c2 = sw_comm(x, y, a2, cr);
    lemma_fundamental_div_mod((g1 * cr) as int, d as int); lemma_mod_bound((g1 * cr) as int, d as int);
    lemma_fundamental_div_mod((g2 * cr) as int, d as int); lemma_mod_bound((g2 * cr) as int, d as int);
    assert(c1 * d == d * c1 && c2 * d == d * c2) by(nonlinear_arith);
    lemma_net_mono(g1 as int, g2 as int, cr as int, d as int, c1 as int, c2 as int);
    assert(c1 <= g1) by(nonlinear_arith) requires c1 * d <= g1 * cr, cr <= d, d > 0;
    assert(c2 <= g2) by(nonlinear_arith) requires c2 * d <= g2 * cr, cr <= d, d > 0;
}

// n <= gross and gross*s <= y*a  ==>  the three C01 forms
pub proof fn lemma_swap_post(x: nat, y: nat, a: nat, n: nat)
    requires x > 0, n <= sw_gross(x, y, a), sw_gross(x, y, a) <= y,
        !sw_window(x, y, a) ==> sw_gross(x, y, a) * (x + a) <= y * a,
        !sw_window(x, y, a) && y > 0 ==> sw_gross(x, y, a) < y,
    ensures
        !sw_window(x, y, a) ==> n * (x + a) <= y * a && (x + a) * (y - n) >= x * y && (y > 0 ==> n < y),
{
    let s = x + a; let g = sw_gross(x, y, a);
    if !sw_window(x, y, a) {
        assert(n * s <= g * s) by(nonlinear_arith) requires n <= g, s > 0;
        assert(s * (y - n) == s * y - n * s) by(nonlinear_arith);
        assert(s * y - y * a == x * y) by(nonlinear_arith) requires s == x + a;
    }
}
