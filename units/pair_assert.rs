// ===== contracts/halo-pair/src/assert.rs (function text extracted from /repo) =====
pub open spec fn p10(k: int) -> nat { vstd::arithmetic::power::pow(10, k as nat) as nat }
// decimals normalisation performed before the guard: the side with FEWER decimals is scaled up
pub open spec fn norm_offer(od: u8, rd: u8, offer: nat) -> nat { if od < rd { offer * p10(rd - od) } else { offer } }
pub open spec fn norm_ret(od: u8, rd: u8, x: nat) -> nat { if od > rd { x * p10(od - rd) } else { x } }
// the guard, as an executable-shaped predicate over normalised amounts (o, rt, sp), price p and limit s (raw 10^18 atomics)
pub open spec fn guard_rejects(bp: Option<Decimal>, ms: Option<Decimal>, o: nat, rt: nat, sp: nat) -> bool {
    match (ms, bp) {
        (Some(s), Some(p)) => ({ let e = o * dd() / (p.0 as nat); rt < e && ((e - rt) as nat) * dd() / e > s.0 as nat }),
        (Some(s), None) => sp * dd() / (rt + sp) > s.0 as nat,
        _ => false,
    }
}
// ---- C10 as stated, cross-multiplied (p, s are raw atomics: price = p/D, limit = s/D) ----
// succeeds only if return > (offer/p - 1)*(1 - s - 10^-18)   (binding when offer/p > 1 and s < 1)
pub open spec fn c10_ok_belief(o: nat, rt: nat, p: nat, s: nat) -> bool { o * dd() > p && s < dd() ==> rt * dd() * p > (o * dd() - p) * (dd() - s - 1) }
// never rejected when return >= (offer/p)*(1 - s):  rejected ==> return*p < offer*(D - s)
pub open spec fn c10_rej_belief(o: nat, rt: nat, p: nat, s: nat) -> bool { rt * p < o * (dd() - s) }
// succeeds only if spread/(return+spread) < s + 10^-18
pub open spec fn c10_ok_plain(rt: nat, sp: nat, s: nat) -> bool { sp * dd() < (s + 1) * (rt + sp) }
// rejected only if that ratio exceeds s
pub open spec fn c10_rej_plain(rt: nat, sp: nat, s: nat) -> bool { sp * dd() > s * (rt + sp) }

pub proof fn lemma_c10_belief(o: nat, rt: nat, p: nat, s: nat)
    requires p > 0
    ensures
        ({ let e = o * dd() / p; !(rt < e && ((e - rt) as nat) * dd() / e > s) ==> c10_ok_belief(o, rt, p, s) }),
        ({ let e = o * dd() / p; (rt < e && ((e - rt) as nat) * dd() / e > s) ==> c10_rej_belief(o, rt, p, s) }),
{
    let d = dd(); let od = o * d; let e = od / p;
    lemma_fundamental_div_mod(od as int, p as int); lemma_mod_bound(od as int, p as int);
    assert(p * e <= od && od < p * e + p);
    if rt < e {
        let q = ((e - rt) as nat) * d / e;
        lemma_fundamental_div_mod((((e - rt) as nat) * d) as int, e as int); lemma_mod_bound((((e - rt) as nat) * d) as int, e as int);
        assert(e * q <= (e - rt) * d && (e - rt) * d < e * q + e);
        assert((e - rt) * d == e * d - rt * d) by(nonlinear_arith) requires rt < e;
        if q > s {
            // rejected: rt*d < e*(d-s)
            assert(e * q >= e * (s + 1)) by(nonlinear_arith) requires q >= s + 1;
            assert(e * (s + 1) == e * s + e) by(nonlinear_arith);
            assert(rt * d < e * d - e * s);
            if s <= d {
                assert(e * d - e * s == e * (d - s)) by(nonlinear_arith);
                assert((rt * d) * p < (e * (d - s)) * p) by(nonlinear_arith) requires rt * d < e * (d - s), p > 0;
                assert((e * (d - s)) * p == (p * e) * (d - s)) by(nonlinear_arith);
                assert((p * e) * (d - s) <= od * (d - s)) by(nonlinear_arith) requires p * e <= od, s <= d;
                assert((rt * d) * p == (rt * p) * d) by(nonlinear_arith);
                assert(od * (d - s) == (o * (d - s)) * d) by(nonlinear_arith) requires od == o * d;
                assert(rt * p < o * (d - s)) by(nonlinear_arith) requires (rt * p) * d < (o * (d - s)) * d, d > 0;
            } else {
                assert(e * s >= e * d) by(nonlinear_arith) requires s > d;
                assert(false);
            }
        } else if od > p && s < d {
            // accepted through the spread branch: rt*d > e*(d - s - 1)
            assert(e * q <= e * s) by(nonlinear_arith) requires q <= s;
            assert(e * d - rt * d < e * s + e);
            assert(e * (d - s - 1) == e * d - e * s - e) by(nonlinear_arith);
            assert(rt * d > e * (d - s - 1));
            assert((rt * d) * p > (e * (d - s - 1)) * p) by(nonlinear_arith) requires rt * d > e * (d - s - 1), p > 0;
            assert((e * (d - s - 1)) * p == (p * e) * (d - s - 1)) by(nonlinear_arith);
            assert((p * e) * (d - s - 1) >= (od - p) * (d - s - 1)) by(nonlinear_arith) requires p * e > od - p, d - s - 1 >= 0;
            assert((rt * d) * p == rt * d * p) by(nonlinear_arith);
        }
    } else if od > p && s < d {
        // accepted because rt >= e
        assert(rt * p >= e * p) by(nonlinear_arith) requires rt >= e;
        assert(e * p == p * e) by(nonlinear_arith);
        assert(rt * p > od - p);
        assert((rt * p) * d > (od - p) * d) by(nonlinear_arith) requires rt * p > od - p, d > 0;
        assert((od - p) * d >= (od - p) * (d - s - 1)) by(nonlinear_arith) requires od > p, s < d;
        assert((rt * p) * d == rt * d * p) by(nonlinear_arith);
    }
}
pub proof fn lemma_c10_plain(rt: nat, sp: nat, s: nat)
    requires rt + sp > 0
    ensures
        !(sp * dd() / (rt + sp) > s) ==> c10_ok_plain(rt, sp, s),
        (sp * dd() / (rt + sp) > s) ==> c10_rej_plain(rt, sp, s),
{
    let d = dd(); let t = rt + sp; let q = sp * d / t;
    lemma_fundamental_div_mod((sp * d) as int, t as int); lemma_mod_bound((sp * d) as int, t as int);
    assert(t * q <= sp * d && sp * d < t * q + t);
    if q > s {
        assert(t * q >= t * (s + 1)) by(nonlinear_arith) requires q >= s + 1;
        assert(t * (s + 1) == s * t + t) by(nonlinear_arith);
    } else {
        assert(t * q <= t * s) by(nonlinear_arith) requires q <= s;
        assert((s + 1) * t == t * s + t) by(nonlinear_arith);
    }
}

//%fn contracts/halo-pair/src/assert.rs | - | assert_max_spread
//%%sig
    ensures
        /*[C10 spread.ok-not-rejected]*/ r is Ok ==> !guard_rejects(belief_price, max_spread, norm_offer(offer_decimal, return_decimal, offer_asset.amount.0 as nat),
            norm_ret(offer_decimal, return_decimal, return_asset.amount.0 as nat), norm_ret(offer_decimal, return_decimal, spread_amount.0 as nat)),
        /*[C10 spread.err-is-guard]*/ r matches Err(ContractError::MaxSpreadAssertion {}) ==> guard_rejects(belief_price, max_spread, norm_offer(offer_decimal, return_decimal, offer_asset.amount.0 as nat),
            norm_ret(offer_decimal, return_decimal, return_asset.amount.0 as nat), norm_ret(offer_decimal, return_decimal, spread_amount.0 as nat)),
        /*[C10 spread.ok-belief]*/ r is Ok && max_spread is Some && belief_price is Some ==> c10_ok_belief(norm_offer(offer_decimal, return_decimal, offer_asset.amount.0 as nat),
            norm_ret(offer_decimal, return_decimal, return_asset.amount.0 as nat), belief_price->Some_0.0 as nat, max_spread->Some_0.0 as nat),
        /*[C10 spread.rej-belief]*/ (r matches Err(ContractError::MaxSpreadAssertion {})) && max_spread is Some && belief_price is Some ==> c10_rej_belief(norm_offer(offer_decimal, return_decimal, offer_asset.amount.0 as nat),
            norm_ret(offer_decimal, return_decimal, return_asset.amount.0 as nat), belief_price->Some_0.0 as nat, max_spread->Some_0.0 as nat),
        /*[C10 spread.ok-plain]*/ r is Ok && max_spread is Some && belief_price is None ==> c10_ok_plain(norm_ret(offer_decimal, return_decimal, return_asset.amount.0 as nat),
            norm_ret(offer_decimal, return_decimal, spread_amount.0 as nat), max_spread->Some_0.0 as nat),
        /*[C10 spread.rej-plain]*/ (r matches Err(ContractError::MaxSpreadAssertion {})) && max_spread is Some && belief_price is None ==> c10_rej_plain(norm_ret(offer_decimal, return_decimal, return_asset.amount.0 as nat),
            norm_ret(offer_decimal, return_decimal, spread_amount.0 as nat), max_spread->Some_0.0 as nat),
//%%head
    broadcast use group_q_errors;
//%%insert before #1 /let expected_return = offer_amount \/ belief_price;/
        proof { if belief_price.0.v() > 0 { lemma_c10_belief(offer_amount.0.v(), return_amount.0.v(), belief_price.0.v(), max_spread.0.v()); } }
//%%insert before #1 /if Decimal256::from_ratio\(spread_amount, return_amount \+ spread_amount\) > max_spread/
        proof { if return_amount.0.v() + spread_amount.0.v() > 0 { lemma_c10_plain(return_amount.0.v(), spread_amount.0.v(), max_spread.0.v()); } }
//%end
