// ===== contracts/halo-pair/src/assert.rs (function text extracted from /repo) =====
pub open spec fn p10(k: int) -> nat { vstd::arithmetic::power::pow(10, k as nat) as nat }
// decimals normalisation performed before the guard: the side with FEWER decimals is scaled up
pub open spec fn norm_offer(od: u8, rd: u8, offer: nat) -> nat { if od < rd { offer * p10(rd - od) } else { offer } }
pub open spec fn norm_ret(od: u8, rd: u8, x: nat) -> nat { if od > rd { x * p10(od - rd) } else { x } }
// the guard, as an executable-shaped predicate over normalised amounts (o, rt, sp), price p and limit s (raw 10^18 atomics)
pub open spec fn guard_rejects(bp: Option<Decimal>, ms: Option<Decimal>, o: nat, rt: nat, sp: nat) -> bool {
    match (ms, bp) {
        (Some(s), Some(p)) => ({ let e = o * dd() / (p.0 as nat); rt < e && ((e - rt) as nat) * dd() / e > s.0 as nat }),
        (Some(s), None) => sp * dd() / (rt + sp) > s.0 as nat,
        _ => false,
    }
}
// ---- C10 as stated, cross-multiplied (p, s are raw atomics: price = p/D, limit = s/D) ----
// succeeds only if return > (offer/p - 1)*(1 - s - 10^-18)   (binding when offer/p > 1 and s < 1)
pub open spec fn c10_ok_belief(o: nat, rt: nat, p: nat, s: nat) -> bool { o * dd() > p && s < dd() ==> rt * dd() * p > (o * dd() - p) * (dd() - s - 1) }
// never rejected when return >= (offer/p)*(1 - s):  rejected ==> return*p < offer*(D - s)
pub open spec fn c10_rej_belief(o: nat, rt: nat, p: nat, s: nat) -> bool { rt * p < o * (dd() - s) }
// succeeds only if spread/(return+spread) < s + 10^-18
pub open spec fn c10_ok_plain(rt: nat, sp: nat, s: nat) -> bool { sp * dd() < (s + 1) * (rt + sp) }
// rejected only if that ratio exceeds s
pub open spec fn c10_rej_plain(rt: nat, sp: nat, s: nat) -> bool { sp * dd() > s * (rt + sp) }

pub proof fn lemma_c10_belief(o: nat, rt: nat, p: nat, s: nat)
    requires p > 0
    ensures
        ({ let e = o * dd() / p; !(rt < e && ((e - rt) as nat) * dd() / e > s) ==> c10_ok_belief(o, rt, p, s) }),
        ({ let e = o * dd() / p; (rt < e && ((e - rt) as nat) * dd() / e > s) ==> c10_rej_belief(o, rt, p, s) }),
{
    let d = dd(); let od = o * d; let e = od / p;
    lemma_fundamental_div_mod(od as int, p as int); lemma_mod_bound(od as int, p as int);
    assert(p * e <= od && od < p * e + p);
    if rt < e {
        let q = ((e - rt) as nat) * d / e;
        lemma_fundamental_div_mod((((e - rt) as nat) * d) as int, e as int); lemma_mod_bound((((e - rt) as nat) * d) as int, e as int);
        assert(e * q <= (e - rt) * d && (e - rt) * d < e * q + e);
        assert((e - rt) * d == e * d - rt * d) by(nonlinear_arith) requires rt < e;
        if q > s {
            // rejected: rt*d < e*(d-s)
            assert(e * q >= e * (s + 1)) by(nonlinear_arith) requires q >= s + 1;
            assert(e * (s + 1) == e * s + e) by(nonlinear_arith);
            assert(rt * d < e * d - e * s);
            if s <= d {
                assert(e * d - e * s == e * (d - s)) by(nonlinear_arith);
                assert((rt * d) * p < (e * (d - s)) * p) by(nonlinear_arith) requires rt * d < e * (d - s), p > 0;
                assert((e * (d - s)) * p == (p * e) * (d - s)) by(nonlinear_arith);
                assert((p * e) * (d - s) <= od * (d - s)) by(nonlinear_arith) requires p * e <= od, s <= d;
                assert((rt * d) * p == (rt * p) * d) by(nonlinear_arith);
                assert(od * (d - s) == (o * (d - s)) * d) by(nonlinear_arith) requires od == o * d;
                assert(rt * p < o * (d - s)) by(nonlinear_arith) requires (rt * p) * d < (o * (d - s)) * d, d > 0;
            } else {
                assert(e * s >= e * d) by(nonlinear_arith) requires s > d;
                assert(false);
            }
        } else if od > p && s < d {
            // accepted through the spread branch: rt*d > e*(d - s - 1)
            assert(e * q <= e * s) by(nonlinear_arith) requires q <= s;
            assert(e * d - rt * d < e * s + e);
            assert(e * (d - s - 1) == e * d - e * s - e) by(nonlinear_arith);
            assert(rt * d > e * (d - s - 1));
            assert((rt * d) * p > (e * (d - s - 1)) * p) by(nonlinear_arith) requires rt * d > e * (d - s - 1), p > 0;
            assert((e * (d - s - 1)) * p == (p * e) * (d - s - 1)) by(nonlinear_arith);
            assert((p * e) * (d - s - 1) >= (od - p) * (d - s - 1)) by(nonlinear_arith) requires p * e > od - p, d - s - 1 >= 0;
            assert((rt * d) * p == rt * d * p) by(nonlinear_arith);
        }
    } else if od > p && s < d {
        // accepted because rt >= e
        assert(rt * p >= e * p) by(nonlinear_arith) requires rt >= e;
        assert(e * p == p * e) by(nonlinear_arith);
        assert(rt * p > od - p);
        assert((rt * p) * d > (od - p) * d) by(nonlinear_arith) requires rt * p > od - p, d > 0;
        assert((od - p) * d >= (od - p) * (d - s - 1)) by(nonlinear_arith) requires od > p, s < d;
        assert((rt * p) * d == rt * d * p) by(nonlinear_arith);
    }
}
pub proof fn lemma_c10_plain(rt: nat, sp: nat, s: nat)
    requires rt + sp > 0
    ensures
        !(sp * dd() / (rt + sp) > s) ==> c10_ok_plain(rt, sp, s),
        (sp * dd() / (rt + sp) > s) ==> c10_rej_plain(rt, sp, s),
{
    let d = dd(); let t = rt + sp; let q = sp * d / t;
    lemma_fundamental_div_mod((sp * d) as int, t as int); lemma_mod_bound((sp * d) as int, t as int);
    assert(t * q <= sp * d && sp * d < t * q + t);
    if q > s {
        assert(t * q >= t * (s + 1)) by(nonlinear_arith) requires q >= s + 1;
        assert(t * (s + 1) == s * t + t) by(nonlinear_arith);
    } else {
        assert(t * q <= t * s) by(nonlinear_arith) requires q <= s;
        assert((s + 1) * t == t * s + t) by(nonlinear_arith);
    }
}

//%fn contracts/halo-pair/src/assert.rs | - | assert_max_spread
//%%sig
    ensures
        /*[C10 spread.ok-not-rejected]*/ r is Ok ==> !guard_rejects(belief_price, max_spread, norm_offer(offer_decimal, return_decimal, offer_asset.amount.0 as nat),
            norm_ret(offer_decimal, return_decimal, return_asset.amount.0 as nat), norm_ret(offer_decimal, return_decimal, spread_amount.0 as nat)),
        /*[C10 spread.err-is-guard]*/ r matches Err(ContractError::MaxSpreadAssertion {}) ==> guard_rejects(belief_price, max_spread, norm_offer(offer_decimal, return_decimal, offer_asset.amount.0 as nat),
            norm_ret(offer_decimal, return_decimal, return_asset.amount.0 as nat), norm_ret(offer_decimal, return_decimal, spread_amount.0 as nat)),
        /*[C10 spread.ok-belief]*/ r is Ok && max_spread is Some && belief_price is Some ==> c10_ok_belief(norm_offer(offer_decimal, return_decimal, offer_asset.amount.0 as nat),
            norm_ret(offer_decimal, return_decimal, return_asset.amount.0 as nat), belief_price->Some_0.0 as nat, max_spread->Some_0.0 as nat),
        /*[C10 spread.rej-belief]*/ (r matches Err(ContractError::MaxSpreadAssertion {})) && max_spread is Some && belief_price is Some ==> c10_rej_belief(norm_offer(offer_decimal, return_decimal, offer_asset.amount.0 as nat),
            norm_ret(offer_decimal, return_decimal, return_asset.amount.0 as nat), belief_price->Some_0.0 as nat, max_spread->Some_0.0 as nat),
        /*[C10 spread.ok-plain]*/ r is Ok && max_spread is Some && belief_price is None ==> c10_ok_plain(norm_ret(offer_decimal, return_decimal, return_asset.amount.0 as nat),
            norm_ret(offer_decimal, return_decimal, spread_amount.0 as nat), max_spread->Some_0.0 as nat),
        /*[C10 spread.rej-plain]*/ (r matches Err(ContractError::MaxSpreadAssertion {})) && max_spread is Some && belief_price is None ==> c10_rej_plain(norm_ret(offer_decimal, return_decimal, return_asset.amount.0 as nat),
            norm_ret(offer_decimal, return_decimal, spread_amount.0 as nat), max_spread->Some_0.0 as nat),
//%%head
//%%insert before #1 /let expected_return\b/
        proof { if belief_price.0.v() > 0 { lemma_c10_belief(offer_amount.0.v(), return_amount.0.v(), belief_price.0.v(), max_spread.0.v()); } }
//%%insert before #1 /if Decimal256::from_ratio\(spread_amount, return_amount \+ spread_amount\) > max_spread/
        proof { if return_amount.0.v() + spread_amount.0.v() > 0 { lemma_c10_plain(return_amount.0.v(), spread_amount.0.v(), max_spread.0.v()); } }
//%end

// ---- C15: slippage tolerance on provision ----
pub open spec fn sl_ratio(x: nat, y: nat) -> nat { x * dd() / y }
pub open spec fn sl_drop(a: nat, b: nat, t: nat) -> nat { (a * dd() / b) * ((dd() - t) as nat) / dd() }
pub open spec fn slip_rejects(t: nat, d0: nat, d1: nat, r0: nat, r1: nat) -> bool { sl_drop(d0, d1, t) > sl_ratio(r0, r1) || sl_drop(d1, d0, t) > sl_ratio(r1, r0) }
// (a/b)*(1-t) < x/y + 2*10^-18, cross-multiplied
pub open spec fn c15_ok(a: nat, b: nat, x: nat, y: nat, t: nat) -> bool { a * (dd() - t) * y < (x * dd() + 2 * y) * b }
// (a/b)*(1-t) <= x/y - 10^-18, cross-multiplied
pub open spec fn c15_safe(a: nat, b: nat, x: nat, y: nat, t: nat) -> bool { a * (dd() - t) * y <= (x * dd() - y) * b }
pub proof fn lemma_c15(a: nat, b: nat, x: nat, y: nat, t: nat)
    requires b > 0, y > 0, t <= dd()
    ensures
        sl_drop(a, b, t) <= sl_ratio(x, y) ==> c15_ok(a, b, x, y, t),
        c15_safe(a, b, x, y, t) ==> sl_drop(a, b, t) <= sl_ratio(x, y),
{
    let d = dd(); let e = (d - t) as nat; let aa = a * d / b; let p = aa * e / d; let l = x * d / y;
    lemma_fundamental_div_mod((a * d) as int, b as int); lemma_mod_bound((a * d) as int, b as int);
    lemma_fundamental_div_mod((aa * e) as int, d as int); lemma_mod_bound((aa * e) as int, d as int);
    lemma_fundamental_div_mod((x * d) as int, y as int); lemma_mod_bound((x * d) as int, y as int);
    assert(b * aa <= a * d && a * d < b * aa + b);
    assert(d * p <= aa * e && aa * e < d * p + d);
    assert(y * l <= x * d && x * d < y * l + y);
    if p <= l {
        if e == 0 {
            assert(a * e * y == 0) by(nonlinear_arith) requires e == 0;
            assert((x * d + 2 * y) * b > 0) by(nonlinear_arith) requires y > 0, b > 0;
        } else {
            assert((a * d) * e < (b * aa + b) * e) by(nonlinear_arith) requires a * d < b * aa + b, e > 0;
            assert((b * aa + b) * e == b * (aa * e) + b * e) by(nonlinear_arith);
            assert(b * (aa * e) < b * (d * p + d)) by(nonlinear_arith) requires aa * e < d * p + d, b > 0;
            assert(b * e <= b * d) by(nonlinear_arith) requires e <= d;
            assert(b * (d * p + d) + b * d == (p + 2) * b * d) by(nonlinear_arith);
            assert((a * d) * e == (a * e) * d) by(nonlinear_arith);
            assert((a * e) * d < ((p + 2) * b) * d) by(nonlinear_arith) requires (a * e) * d < (p + 2) * b * d;
            assert(a * e < (p + 2) * b) by(nonlinear_arith) requires (a * e) * d < ((p + 2) * b) * d, d > 0;
            assert((p + 2) * b <= (l + 2) * b) by(nonlinear_arith) requires p <= l;
            assert((a * e) * y < ((l + 2) * b) * y) by(nonlinear_arith) requires a * e < (l + 2) * b, y > 0;
            assert(((l + 2) * b) * y == (y * l + 2 * y) * b) by(nonlinear_arith);
            assert((y * l + 2 * y) * b <= (x * d + 2 * y) * b) by(nonlinear_arith) requires y * l <= x * d;
            assert(a * e * y == (a * e) * y) by(nonlinear_arith);
        }
    }
    if c15_safe(a, b, x, y, t) {
        // p*y <= x*d - y < l*y
        assert(a * e * y <= (x * d - y) * b);
        assert((d * p) * (b * y) <= (aa * e) * (b * y)) by(nonlinear_arith) requires d * p <= aa * e;
        assert((aa * e) * (b * y) == (b * aa) * (e * y)) by(nonlinear_arith);
        assert((b * aa) * (e * y) <= (a * d) * (e * y)) by(nonlinear_arith) requires b * aa <= a * d;
        assert((a * d) * (e * y) == (a * e * y) * d) by(nonlinear_arith);
        assert((a * e * y) * d <= ((x * d - y) * b) * d) by(nonlinear_arith) requires a * e * y <= (x * d - y) * b, d > 0;
        assert((d * p) * (b * y) == (p * y) * (b * d)) by(nonlinear_arith);
        assert(((x * d - y) * b) * d == (x * d - y) * (b * d)) by(nonlinear_arith);
        assert(b * d > 0) by(nonlinear_arith) requires b > 0, d > 0;
        assert(p * y <= x * d - y) by(nonlinear_arith) requires (p * y) * (b * d) <= (x * d - y) * (b * d), b * d > 0;
        assert(p * y < l * y) by(nonlinear_arith) requires p * y <= x * d - y, x * d < y * l + y;
        assert(p < l) by(nonlinear_arith) requires p * y < l * y, y > 0;
    }
}

//%fn contracts/halo-pair/src/assert.rs | - | assert_slippage_tolerance
//%%sig
    ensures
        /*[C15 slip.none-ok]*/ slippage_tolerance is None ==> r is Ok,
        /*[C15 slip.above-one-rejected]*/ slippage_tolerance matches Some(t) ==> t.0 as nat > dd() ==> r is Err && !(r matches Err(ContractError::MaxSlippageAssertion {})),
        /*[C15 slip.ok-not-rejected]*/ slippage_tolerance matches Some(t) ==> r is Ok ==> t.0 as nat <= dd() && !slip_rejects(t.0 as nat, deposits[0].0 as nat, deposits[1].0 as nat, pools[0].amount.0 as nat, pools[1].amount.0 as nat),
        /*[C15 slip.err-is-guard]*/ slippage_tolerance matches Some(t) ==> (r matches Err(ContractError::MaxSlippageAssertion {})) ==> t.0 as nat <= dd() && slip_rejects(t.0 as nat, deposits[0].0 as nat, deposits[1].0 as nat, pools[0].amount.0 as nat, pools[1].amount.0 as nat),
        /*[C15 slip.ok-within-tolerance]*/ slippage_tolerance matches Some(t) ==> r is Ok ==>
            c15_ok(deposits[0].0 as nat, deposits[1].0 as nat, pools[0].amount.0 as nat, pools[1].amount.0 as nat, t.0 as nat)
            && c15_ok(deposits[1].0 as nat, deposits[0].0 as nat, pools[1].amount.0 as nat, pools[0].amount.0 as nat, t.0 as nat),
        /*[C15 slip.rejected-only-above-one-or-unsafe]*/ slippage_tolerance matches Some(t) ==> r is Err ==> t.0 as nat > dd()
            || !(c15_safe(deposits[0].0 as nat, deposits[1].0 as nat, pools[0].amount.0 as nat, pools[1].amount.0 as nat, t.0 as nat)
                 && c15_safe(deposits[1].0 as nat, deposits[0].0 as nat, pools[1].amount.0 as nat, pools[0].amount.0 as nat, t.0 as nat)),
        /*[C15 slip.never-rejected-when-safe]*/ slippage_tolerance matches Some(t) ==> (r matches Err(ContractError::MaxSlippageAssertion {})) ==>
            !(c15_safe(deposits[0].0 as nat, deposits[1].0 as nat, pools[0].amount.0 as nat, pools[1].amount.0 as nat, t.0 as nat)
              && c15_safe(deposits[1].0 as nat, deposits[0].0 as nat, pools[1].amount.0 as nat, pools[0].amount.0 as nat, t.0 as nat)),
//%%head
    broadcast use mlem::lemma_decimal_fractional;
//%%insert before #1 /\/\/ Ensure each prices are not dropped/
        proof {
            let t = slippage_tolerance.0.v();
            if deposits[1].0.v() > 0 && pools[1].0.v() > 0 { lemma_c15(deposits[0].0.v(), deposits[1].0.v(), pools[0].0.v(), pools[1].0.v(), t); }
            if deposits[0].0.v() > 0 && pools[0].0.v() > 0 { lemma_c15(deposits[1].0.v(), deposits[0].0.v(), pools[1].0.v(), pools[0].0.v(), t); }
        }
//%end
