// ---- provide_liquidity (C05, C07, C09, C15) ----
pub open spec fn recv_of(receiver: Option<String>, sender: Seq<char>) -> Seq<char> { if receiver is Some { receiver->Some_0@ } else { sender } }
pub open spec fn is_share(s: Uint128) -> bool { true }
pub open spec fn listed(assets: [Asset; 2], i: AssetInfo) -> bool { assets[0].info.same(&i) || assets[1].info.same(&i) }
// declared deposit for pool asset i: the amount of the FIRST declared asset that names it
pub open spec fn dep_of(assets: [Asset; 2], i: AssetInfo) -> Uint128 { if assets[0].info.same(&i) { assets[0].amount } else { assets[1].amount } }
pub open spec fn transfer_from_msg(token: Seq<char>, owner: Seq<char>, recipient: Seq<char>, amount: Uint128, m: CosmosMsg) -> bool {
    m matches CosmosMsg::Wasm(WasmMsg::Execute { contract_addr, msg, funds }) && contract_addr@ == token && funds@.len() == 0
        && exists|o: String, rc: String| o@ == owner && rc@ == recipient && msg == bin_of(Cw20ExecuteMsg::TransferFrom { owner: o, recipient: rc, amount })
}
pub open spec fn mint_msg(lp: Seq<char>, recipient: Seq<char>, amount: Uint128, m: CosmosMsg) -> bool {
    m matches CosmosMsg::Wasm(WasmMsg::Execute { contract_addr, msg, funds }) && contract_addr@ == lp && funds@.len() == 0
        && exists|rc: String| rc@ == recipient && msg == bin_of(Cw20ExecuteMsg::Mint { recipient: rc, amount })
}
pub open spec fn is_tok(i: AssetInfo) -> int { if i is Token { 1 } else { 0 } }
pub open spec fn tok_addr(i: AssetInfo) -> Seq<char> { match i { AssetInfo::Token { contract_addr } => contract_addr@, AssetInfo::NativeToken { denom } => denom@ } }
// reserve the share is computed against: the observed balance, minus the deposit when it already arrived with the message (native)
pub open spec fn net_reserve(w: World, pair: Seq<char>, i: AssetInfo, d: Uint128) -> int { if i is NativeToken { balance_of(w, i, pair) - d.0 } else { balance_of(w, i, pair) as int } }
pub open spec fn provide_ok(w: World, pair: Seq<char>, pi: PairInfoRaw, i0: AssetInfo, i1: AssetInfo, lp: Seq<char>, sender: Seq<char>, recv: Seq<char>,
                            assets: [Asset; 2], share: Uint128, msgs: Seq<CosmosMsg>) -> bool {
    let d0 = dep_of(assets, i0); let d1 = dep_of(assets, i1);
    let r0 = net_reserve(w, pair, i0, d0); let r1 = net_reserve(w, pair, i1, d1);
    let s = w.tok_supply(lp); let k0 = is_tok(i0); let k1 = is_tok(i1);
    listed(assets, i0) && listed(assets, i1) && r0 >= 0 && r1 >= 0 && canon_of(lp) == pi.liquidity_token.0@
    // exactly the declared deposits are pulled, from the caller, into the pair (cw20: TransferFrom owner = caller)
    && (i0 is Token ==> transfer_from_msg(tok_addr(i0), sender, pair, d0, msgs[0]))
    && (i1 is Token ==> transfer_from_msg(tok_addr(i1), sender, pair, d1, msgs[k0]))
    && share.0 >= 1
    && (s > 0 ==> msgs.len() == k0 + k1 + 1 && c05_fair_share(d0.0 as nat, d1.0 as nat, r0 as nat, r1 as nat, s, share.0 as nat) && mint_msg(lp, recv, share, msgs[k0 + k1]))
    && (s == 0 ==> msgs.len() == k0 + k1 + 2 && c05_first_share(d0.0 as nat, d1.0 as nat, share.0 as nat)
            && in_whitelist(pi.requirements.whitelist@, sender) && d0.0 >= pi.requirements.first_asset_minimum.0 && d1.0 >= pi.requirements.second_asset_minimum.0
            && mint_msg(lp, lp, Uint128(1), msgs[k0 + k1]) && mint_msg(lp, recv, Uint128((share.0 - 1) as u128), msgs[k0 + k1 + 1]))
}
// the three things a successful provision guarantees, as predicates (restated for the ProvideLiquidity arm of `execute`)
pub open spec fn provide_funds_ok(funds: Seq<Coin>, assets: [Asset; 2]) -> bool {
    forall|j: int| 0 <= j < 2 ==> (#[trigger] assets[j].info matches AssetInfo::NativeToken { denom } ==> assets[j].amount.0 as nat == attached(funds, denom@))
}
pub open spec fn provide_mints_ok(s: Storage, w: World, pair: Seq<char>, sender: Seq<char>, receiver: Option<String>, assets: [Asset; 2], msgs: Seq<CosmosMsg>) -> bool {
    s.pair_info is Some && ({
        let pi = s.pair_info->Some_0;
        exists|i0: AssetInfo, i1: AssetInfo, share: Uint128| #![trigger raw_of(i0, pi.asset_infos[0]), raw_of(i1, pi.asset_infos[1]), is_share(share)]
            raw_of(i0, pi.asset_infos[0]) && raw_of(i1, pi.asset_infos[1]) && is_share(share)
            && provide_ok(w, pair, pi, i0, i1, human_of(pi.liquidity_token.0@), sender, recv_of(receiver, sender), assets, share, msgs) })
}
pub open spec fn provide_slip_ok(s: Storage, w: World, pair: Seq<char>, assets: [Asset; 2], t: Option<Decimal>) -> bool {
    t is Some ==> s.pair_info is Some && ({
        let pi = s.pair_info->Some_0;
        exists|i0: AssetInfo, i1: AssetInfo| #![trigger raw_of(i0, pi.asset_infos[0]), raw_of(i1, pi.asset_infos[1])] raw_of(i0, pi.asset_infos[0]) && raw_of(i1, pi.asset_infos[1])
            && net_reserve(w, pair, i0, dep_of(assets, i0)) >= 0 && net_reserve(w, pair, i1, dep_of(assets, i1)) >= 0
            && !slip_rejects(t->Some_0.0 as nat, dep_of(assets, i0).0 as nat, dep_of(assets, i1).0 as nat,
                  net_reserve(w, pair, i0, dep_of(assets, i0)) as nat, net_reserve(w, pair, i1, dep_of(assets, i1)) as nat) })
}
//%fn contracts/halo-pair/src/contract.rs | - | provide_liquidity
//%%rewrite #1 /for asset in assets\.iter\(\) \{/ => for asset in it: assets.iter() { ## name the loop's ghost iterator
//%%rewrite #2 /assets\s*\.iter\(\)\s*\.find\(\|a\| ((?s:.*?))\)\s*\.map\(\|a\| ((?s:.*?))\)\s*\.expect\(/ => vmap_opt(vfind2(&assets, |a: &Asset| -> (b: bool) ensures b == a.info.same(&pools[CLOSURE_IDX].info) { \1 }), |a: &Asset| -> (x: Uint128) ensures x == a.amount { \2 }).expect( ## R4: iter().find(..).map(..) over [Asset;2] -> verified helpers vfind2 / vmap_opt; closures annotated with their own (verified) ensures
//%%rewrite #1 /(?s)pools\[CLOSURE_IDX\](.*?)pools\[CLOSURE_IDX\]/ => pools[0]\1pools[1] ## (index of the pool each find-closure is specified against: first occurrence 0, second 1)
//%%rewrite #1 /for \(i, pool\) in pools\.iter_mut\(\)\.enumerate\(\) \{/ => for i in it2: 0..2usize { ## iter_mut().enumerate() over [Asset;2] -> index loop (Verus has no iter_mut/enumerate); `pool` becomes pools[i]
//%%rewrite #3 /\bpool\.(info|amount)/ => pools[i].\1 ## see previous rewrite
//%%rewrite #1 /receiver\.unwrap_or_else\(\|\| info\.sender\.to_string\(\)\)/ => vunwrap_or_else(receiver, || -> (x: String) ensures x@ == info.sender.0@ { info.sender.to_string() }) ## R4: Option::unwrap_or_else -> verified helper; closure annotated
//%%sig
    ensures
        /*[C09,C05,C03 provide.native-funds]*/ r is Ok ==> forall|j: int| 0 <= j < 2 ==> (#[trigger] assets[j].info matches AssetInfo::NativeToken { denom } ==> assets[j].amount.0 as nat == attached(info.funds@, denom@)),
        /*[C05,C03,C07 provide.mints-and-pulls]*/ r is Ok ==> old(deps.storage).pair_info is Some && ({
            let pi = old(deps.storage).pair_info->Some_0;
            exists|i0: AssetInfo, i1: AssetInfo, share: Uint128| #![trigger raw_of(i0, pi.asset_infos[0]), raw_of(i1, pi.asset_infos[1]), is_share(share)]
                raw_of(i0, pi.asset_infos[0]) && raw_of(i1, pi.asset_infos[1]) && is_share(share)
                && provide_ok(deps.querier.world(), env.contract.address.0@, pi, i0, i1, human_of(pi.liquidity_token.0@), info.sender.0@, recv_of(receiver, info.sender.0@), assets, share, r->Ok_0.msgs()) }),
        /*[C15 provide.slippage-applied]*/ r is Ok ==> slippage_tolerance is Some ==> old(deps.storage).pair_info is Some && ({
            let pi = old(deps.storage).pair_info->Some_0; let w = deps.querier.world(); let pair = env.contract.address.0@;
            exists|i0: AssetInfo, i1: AssetInfo| #![trigger raw_of(i0, pi.asset_infos[0]), raw_of(i1, pi.asset_infos[1])] raw_of(i0, pi.asset_infos[0]) && raw_of(i1, pi.asset_infos[1])
                && net_reserve(w, pair, i0, dep_of(assets, i0)) >= 0 && net_reserve(w, pair, i1, dep_of(assets, i1)) >= 0
                && !slip_rejects(slippage_tolerance->Some_0.0 as nat, dep_of(assets, i0).0 as nat, dep_of(assets, i1).0 as nat,
                      net_reserve(w, pair, i0, dep_of(assets, i0)) as nat, net_reserve(w, pair, i1, dep_of(assets, i1)) as nat) }),
        /*[C14,C07 provide.no-write]*/ *final(deps.storage) == *old(deps.storage),
//%%loop 1
        invariant 0 <= it.index@ <= 2,
            /*[C09,C05,C03 provide.loop.native-funds]*/ forall|j: int| 0 <= j < it.index@ ==> (#[trigger] assets[j].info matches AssetInfo::NativeToken { denom } ==> assets[j].amount.0 as nat == attached(info.funds@, denom@)),
//%%insert before #1 /let mut messages: Vec<CosmosMsg> = vec!\[\];/
    let ghost pools0 = pools;
    let ghost pair = env.contract.address.0@;
    let ghost sender = info.sender.0@;
//%%loop 2
        invariant 0 <= it2.index@ <= 2, i == it2.index@,
            /*[C05,C15,C03 provide.loop.infos-kept]*/ pools[0].info == pools0[0].info, pools[1].info == pools0[1].info,
            /*[C05,C15,C03 provide.loop.net-reserve0]*/ pools[0].amount.0 == (if it2.index@ > 0 && pools0[0].info is NativeToken { pools0[0].amount.0 - deposits[0].0 } else { pools0[0].amount.0 as int }),
            /*[C05,C15,C03 provide.loop.net-reserve1]*/ pools[1].amount.0 == (if it2.index@ > 1 && pools0[1].info is NativeToken { pools0[1].amount.0 - deposits[1].0 } else { pools0[1].amount.0 as int }),
            /*[C05,C07,C03 provide.loop.msg-count]*/ messages@.len() == (if it2.index@ > 0 { is_tok(pools0[0].info) } else { 0 }) + (if it2.index@ > 1 { is_tok(pools0[1].info) } else { 0 }),
            /*[C05,C07,C03 provide.loop.transfer-from0]*/ it2.index@ > 0 && pools0[0].info is Token ==> transfer_from_msg(tok_addr(pools0[0].info), sender, pair, deposits[0], messages@[0]),
            /*[C05,C07,C03 provide.loop.transfer-from1]*/ it2.index@ > 1 && pools0[1].info is Token ==> transfer_from_msg(tok_addr(pools0[1].info), sender, pair, deposits[1], messages@[is_tok(pools0[0].info)]),
            pair == env.contract.address.0@, sender == info.sender.0@,
//%%insert before #1 /^    Ok\(Response::new\(\)\.add_messages\(messages\)/
    proof {
        let w = deps.querier.world();
        let recv = receiver@;
        assert(raw_of(pools0[0].info, pair_info.asset_infos[0]) && raw_of(pools0[1].info, pair_info.asset_infos[1]));
        let ghost total = if total_share.0 == 0 { Uint128((share.0 + 1) as u128) } else { share };
        assert(is_share(total));
        assert(liquidity_token.0@ == human_of(pair_info.liquidity_token.0@));
        /*[C05,C07,C03 provide.witness]*/ assert(provide_ok(w, pair, pair_info, pools0[0].info, pools0[1].info, human_of(pair_info.liquidity_token.0@), sender, recv, assets, total, messages@));
    }
//%end
