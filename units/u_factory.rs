// unit: factory -- halo-factory contract (C14, C16, C17)
#![feature(pattern)]
use vstd::prelude::*;
use vstd::std_specs::ops::*;
use vstd::std_specs::cmp::*;
use vstd::std_specs::convert::*;
use vstd::arithmetic::div_mod::*;
use vstd::arithmetic::mul::*;
use core::cmp::Ordering;
use core::ops;
verus! {
//%include common.rs
pub mod shim {
use super::*;
//%include shim_u256.rs
//%include shim_uint128.rs
//%include shim_cw.rs
//%include helpers.rs
//%include shim_fmt.rs
}
pub use shim::*;
pub mod math {
use super::*;
#[allow(unused_imports)] use super::shim::Decimal;
//%include math.rs
//%include math_decimal_conv.rs
}
pub use math::*;
pub mod mlem {
use super::*;
#[allow(unused_imports)] use super::shim::Decimal;
//%include mlem_math.rs
}
pub use mlem::*;
pub mod asset {
use super::*;
#[allow(unused_imports)] use super::shim::Decimal;
//%include haloswap_error.rs
//%include haloswap_asset.rs
}
pub use asset::*;
pub mod fpairmsg {
use super::*;
#[allow(unused_imports)] use super::shim::Decimal;
//%include factory_msgs_lp.rs
//%include factory_pairmsgs.rs
}
pub mod pairmsg { pub use super::fpairmsg::*; }
pub mod factoryq {
use super::*;
//%include haloswap_factoryq.rs
}
pub mod querier {
use super::*;
#[allow(unused_imports)] use super::shim::Decimal;
use super::factoryq::{NativeTokenDecimalsResponse, QueryMsg as FactoryQueryMsg};
use super::pairmsg::{QueryMsg as PairQueryMsg, ReverseSimulationResponse, SimulationResponse};
//%include haloswap_querier.rs
}
pub use querier::*;
// path alias so that `haloswap::pair::ExecuteMsg` in the extracted text resolves
pub mod haloswap { pub mod pair { pub use crate::fpairmsg::*; } }
pub mod factory {
use super::*;
#[allow(unused_imports)] use super::shim::Decimal;
use super::fpairmsg::{InstantiateMsg as PairInstantiateMsg, MigrateMsg as PairMigrateMsg, LPTokenInfo};
broadcast use {axiom_string_eq_spec, axiom_string_obeys_eq, axiom_to_string_string, group_q_errors, axiom_string_ext};
//%include factory_msgs.rs
//%include factory_state.rs
//%include factory_key.rs
//%include mlem_key.rs
//%include factory_contract.rs
//%include mlem_pages.rs
//%include factory_pages.rs
//%include factory_queries.rs
}
} // verus!
fn main() {}
