// ===== contracts/halo-router/src/operations.rs (function text extracted from /repo) =====
// the message that offers `amount` of `info` to `pair` and asks the proceeds to be sent to `to` (None: back to the caller = router)
pub open spec fn hop_swap_msg(pair: Seq<char>, offer: Asset, max_spread: Option<Decimal>, to: Option<String>, m: CosmosMsg) -> bool {
    match offer.info {
        AssetInfo::NativeToken { denom } => m matches CosmosMsg::Wasm(WasmMsg::Execute { contract_addr, msg, funds })
            && contract_addr@ == pair && funds@.len() == 1 && funds@[0].denom@ == denom@ && funds@[0].amount == offer.amount
            && msg == bin_of(PairHookMsg::Swap { offer_asset: offer, belief_price: None, max_spread, to }),
        AssetInfo::Token { contract_addr: token } => m matches CosmosMsg::Wasm(WasmMsg::Execute { contract_addr, msg, funds })
            && contract_addr@ == token@ && funds@.len() == 0
            && exists|p: String| #![trigger bin_of(Cw20ExecuteMsg::Send { contract: p, amount: offer.amount, msg: bin_of(PairHookMsg::Swap { offer_asset: offer, belief_price: None, max_spread, to }) })]
                p@ == pair && msg == bin_of(Cw20ExecuteMsg::Send { contract: p, amount: offer.amount, msg: bin_of(PairHookMsg::Swap { offer_asset: offer, belief_price: None, max_spread, to }) }),
    }
}
//%fn contracts/halo-router/src/operations.rs | - | asset_into_swap_msg
//%%sig
    ensures
        /*[C13,C07 hop.msg-shape]*/ r is Ok ==> hop_swap_msg(pair_contract.0@, offer_asset, max_spread, to, r->Ok_0),
//%end

//%fn contracts/halo-router/src/operations.rs | - | execute_swap_operation
//%%sig
    ensures
        /*[C14,C13 hop.only-self]*/ r is Ok ==> env.contract.address.0@ == info.sender.0@,
        /*[C13,C07 hop.spends-own-balance]*/ r is Ok ==> old(deps.storage).config is Some && r->Ok_0.msgs().len() == 1 && ({
            let w = deps.querier.world(); let factory = human_of(old(deps.storage).config->Some_0.halo_factory.0@);
            hop_swap_msg(pair_of(w, factory, op_offer(operation), op_ask(operation)),
                Asset { info: op_offer(operation), amount: Uint128(balance_of(w, op_offer(operation), env.contract.address.0@) as u128) }, None, to, r->Ok_0.msgs()[0]) }),
        /*[C14,C07 hop.no-write]*/ *final(deps.storage) == *old(deps.storage),
//%end
