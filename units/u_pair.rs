// unit: pair -- haloswap asset helpers, formulas and the halo-pair contract handlers
#![feature(pattern)]
use vstd::prelude::*;
use vstd::std_specs::ops::*;
use vstd::std_specs::cmp::*;
use vstd::std_specs::convert::*;
use vstd::arithmetic::div_mod::*;
use vstd::arithmetic::mul::*;
use core::cmp::Ordering;
use core::ops;
verus! {
//%include common.rs
pub mod shim {
use super::*;
//%include shim_u256.rs
//%include shim_uint128.rs
//%include shim_cw.rs
//%include helpers.rs
//%include shim_fmt.rs
}
pub use shim::*;
pub mod math {
use super::*;
#[allow(unused_imports)] use super::shim::Decimal;
//%include math.rs
//%include math_decimal_conv.rs
}
pub use math::*;
pub mod mlem {
use super::*;
#[allow(unused_imports)] use super::shim::Decimal;
//%include mlem_math.rs
//%include mlem_swap.rs
//%include mlem_rev.rs
}
pub use mlem::*;
pub mod formulas {
use super::*;
#[allow(unused_imports)] use super::shim::Decimal;
//%include formulas_swap.rs
//%include formulas_misc.rs
}
pub use formulas::*;
pub mod asset {
use super::*;
#[allow(unused_imports)] use super::shim::Decimal;
//%include haloswap_error.rs
//%include haloswap_asset.rs
}
pub use asset::*;
pub mod pairmsg {
use super::*;
#[allow(unused_imports)] use super::shim::Decimal;
//%include haloswap_pairmsg.rs
}
pub mod factoryq {
use super::*;
//%include haloswap_factoryq.rs
}
pub mod querier {
use super::*;
#[allow(unused_imports)] use super::shim::Decimal;
use super::factoryq::{NativeTokenDecimalsResponse, QueryMsg as FactoryQueryMsg};
use super::pairmsg::{QueryMsg as PairQueryMsg, ReverseSimulationResponse, SimulationResponse};
//%include haloswap_querier.rs
}
pub use querier::*;
pub mod formulas_lp {
use super::*;
#[allow(unused_imports)] use super::shim::Decimal;
//%include formulas_lp.rs
}
pub use formulas_lp::*;
pub mod pair {
use super::*;
#[allow(unused_imports)] use super::shim::Decimal;
use super::pairmsg::*;
broadcast use {axiom_string_eq_spec, axiom_string_obeys_eq, axiom_to_string_string, group_q_errors, vstd::arithmetic::mul::lemma_mul_is_commutative};
//%include pair_state.rs
//%include pair_assert.rs
//%include pair_provide.rs
//%include pair_contract.rs
//%include pair_entry.rs
}
pub mod lpvalue {
use super::*;
use super::pair::*;
#[allow(unused_imports)] use super::shim::Decimal;
//%include mlem_lp.rs
}
pub mod ledger {
use super::*;
use super::pair::*;
#[allow(unused_imports)] use super::shim::Decimal;
//%include mlem_ledger.rs
//%include mlem_route.rs
}
} // verus!
fn main() {}
