// unit: pair -- haloswap asset helpers, formulas and the halo-pair contract handlers
use vstd::prelude::*;
use vstd::std_specs::ops::*;
use vstd::std_specs::cmp::*;
use vstd::std_specs::convert::*;
use vstd::arithmetic::div_mod::*;
use vstd::arithmetic::mul::*;
use core::cmp::Ordering;
use core::ops;
verus! {
//%include common.rs
pub mod shim {
use super::*;
//%include shim_u256.rs
//%include shim_uint128.rs
//%include shim_cw.rs
//%include helpers.rs
}
pub use shim::*;
pub mod math {
use super::*;
//%include math.rs
}
pub use math::*;
pub mod mlem {
use super::*;
//%include mlem_math.rs
//%include mlem_swap.rs
//%include mlem_rev.rs
}
pub use mlem::*;
pub mod formulas {
use super::*;
//%include formulas_swap.rs
//%include formulas_misc.rs
}
pub use formulas::*;
pub mod asset {
use super::*;
//%include haloswap_asset.rs
}
pub use asset::*;
} // verus!
fn main() {}
