// ===== contracts/halo-router/src/state.rs : Item<Config> modelled as a field (ASSUMED) =====
//%item contracts/halo-router/src/state.rs struct Config
pub struct Storage { pub config: Option<Config> }
pub struct ItemConfig { pub dummy: u8 }
impl ItemConfig {
    #[verifier::external_body] pub fn load(&self, s: &Storage) -> (r: StdResult<Config>) ensures r is Ok ==> s.config is Some && s.config->Some_0 == r->Ok_0 { unimplemented!() }
}
pub const CONFIG: ItemConfig = ItemConfig { dummy: 0 };
pub struct DepsMut<'a> { pub storage: &'a mut Storage, pub api: &'a dyn Api, pub querier: QuerierWrapper }
#[derive(Clone, Copy)]
pub struct Deps<'a> { pub storage: &'a Storage, pub api: &'a dyn Api, pub querier: QuerierWrapper }
impl<'a> DepsMut<'a> {
    #[verifier::external_body] pub fn as_ref(&self) -> (r: Deps<'_>) ensures *r.storage == *final(self.storage), r.querier == self.querier { unimplemented!() }
}
