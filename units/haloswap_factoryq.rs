// ===== packages/haloswap/src/factory.rs : query message and answer types =====
//%item packages/haloswap/src/factory.rs enum QueryMsg
//%item packages/haloswap/src/factory.rs struct NativeTokenDecimalsResponse
