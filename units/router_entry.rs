// ===== contracts/halo-router/src/contract.rs : instantiate, migrate, config query and the query entry point =====
//%item packages/haloswap/src/router.rs struct InstantiateMsg
//%item packages/haloswap/src/router.rs struct MigrateMsg
//%item packages/haloswap/src/router.rs struct ConfigResponse
//%item packages/haloswap/src/router.rs enum QueryMsg
pub const CONTRACT_NAME: &'static str = "crates.io:halo-router";
pub const CONTRACT_VERSION: &'static str = "0";   // env!("CARGO_PKG_VERSION"): text only, not verified
// cw2::set_contract_version writes the version item only: ASSUMED not to touch the item modelled here
#[verifier::external_body] pub fn set_contract_version(s: &mut Storage, name: &str, version: &str) -> (r: StdResult<()>) ensures *final(s) == *old(s) { unimplemented!() }
impl ItemConfig {
    #[verifier::external_body] pub fn save(&self, s: &mut Storage, v: &Config) -> (r: StdResult<()>)
        ensures r is Ok ==> final(s).config == Some(*v), r is Err ==> final(s).config == old(s).config { unimplemented!() }
}
//%fn contracts/halo-router/src/contract.rs | - | instantiate
//%%sig
    ensures
        /*[C13,C12 rinit.factory]*/ r is Ok ==> final(deps.storage).config is Some && final(deps.storage).config->Some_0.halo_factory.0@ == canon_of(msg.halo_factory@),
        /*[C07 rinit.no-messages]*/ r is Ok ==> r->Ok_0.msgs().len() == 0,
//%end

//%fn contracts/halo-router/src/contract.rs | - | migrate
//%%sig
    ensures
        /*[C14,C07 rmigrate.no-write]*/ *final(deps.storage) == *old(deps.storage),
        /*[C14,C07 rmigrate.no-messages]*/ r is Ok ==> r->Ok_0.msgs().len() == 0,
//%end

//%fn contracts/halo-router/src/contract.rs | - | query_config
//%%sig
    ensures /*[C13 rquery.config]*/ r is Ok ==> deps.storage.config is Some && r->Ok_0.halo_factory@ == human_of(deps.storage.config->Some_0.halo_factory.0@),
//%end

//%fn contracts/halo-router/src/contract.rs | - | query
//%%sig
    ensures
        /*[C12,C13 rquery.dispatch.simulate]*/ r is Ok ==> (msg matches QueryMsg::SimulateSwapOperations { offer_amount, operations } ==> exists|a: SimulateSwapOperationsResponse| #![trigger bin_of(a)] r->Ok_0 == bin_of(a)
            && deps.storage.config is Some && operations@.len() > 0 && a.amount == sim_fold(deps.querier.world(), human_of(deps.storage.config->Some_0.halo_factory.0@), operations@, offer_amount)),
        /*[C12 rquery.dispatch.reverse-simulate]*/ r is Ok ==> (msg matches QueryMsg::ReverseSimulateSwapOperations { ask_amount, operations } ==> exists|a: SimulateSwapOperationsResponse| #![trigger bin_of(a)] r->Ok_0 == bin_of(a)
            && deps.storage.config is Some && operations@.len() > 0 && a.amount == rev_fold(deps.querier.world(), human_of(deps.storage.config->Some_0.halo_factory.0@), operations@, ask_amount)),
//%end
