// ===== packages/bignumber/src/math.rs : function text extracted from /repo on every run =====
broadcast use {shim::axiom_u256_into_self, shim::axiom_u256_into_obeys, shim::axiom_u256_bound};

#[derive(Copy, Clone)]
//%item packages/bignumber/src/math.rs struct Decimal256
//%require-attr derive\(Copy, Clone, Default, Debug, PartialEq, Eq, PartialOrd, Ord, JsonSchema\)
#[derive(Copy, Clone)]
//%item packages/bignumber/src/math.rs struct Uint256
//%require-attr derive\(Copy, Clone, Default, Debug, PartialEq, Eq, PartialOrd, Ord, JsonSchema\)

// derived comparison impls: ASSUMED to be the structural derive (the derive line is checked above)
impl PartialEq for Decimal256 { #[verifier::external_body] fn eq(&self, o: &Decimal256) -> (r: bool) { unimplemented!() } }
impl PartialEqSpecImpl for Decimal256 {
    open spec fn obeys_eq_spec() -> bool { true }
    open spec fn eq_spec(&self, o: &Decimal256) -> bool { self.0.v() == o.0.v() }
}
impl PartialOrd for Decimal256 { #[verifier::external_body] fn partial_cmp(&self, o: &Decimal256) -> (r: Option<Ordering>) { unimplemented!() } }
impl PartialOrdSpecImpl for Decimal256 {
    open spec fn obeys_partial_cmp_spec() -> bool { true }
    open spec fn partial_cmp_spec(&self, o: &Decimal256) -> Option<Ordering> {
        if self.0.v() < o.0.v() { Some(Ordering::Less) } else if self.0.v() == o.0.v() { Some(Ordering::Equal) } else { Some(Ordering::Greater) }
    }
}
impl PartialEq for Uint256 { #[verifier::external_body] fn eq(&self, o: &Uint256) -> (r: bool) { unimplemented!() } }
impl PartialEqSpecImpl for Uint256 {
    open spec fn obeys_eq_spec() -> bool { true }
    open spec fn eq_spec(&self, o: &Uint256) -> bool { self.0.v() == o.0.v() }
}
impl PartialOrd for Uint256 { #[verifier::external_body] fn partial_cmp(&self, o: &Uint256) -> (r: Option<Ordering>) { unimplemented!() } }
impl PartialOrdSpecImpl for Uint256 {
    open spec fn obeys_partial_cmp_spec() -> bool { true }
    open spec fn partial_cmp_spec(&self, o: &Uint256) -> Option<Ordering> {
        if self.0.v() < o.0.v() { Some(Ordering::Less) } else if self.0.v() == o.0.v() { Some(Ordering::Equal) } else { Some(Ordering::Greater) }
    }
}
impl Eq for Uint256 {}
impl Ord for Uint256 { #[verifier::external_body] fn cmp(&self, o: &Uint256) -> (r: Ordering) { unimplemented!() } }
impl OrdSpecImpl for Uint256 {
    open spec fn obeys_cmp_spec() -> bool { true }
    open spec fn cmp_spec(&self, o: &Uint256) -> Ordering {
        if self.0.v() < o.0.v() { Ordering::Less } else if self.0.v() == o.0.v() { Ordering::Equal } else { Ordering::Greater }
    }
}
impl Eq for Decimal256 {}
impl Ord for Decimal256 { #[verifier::external_body] fn cmp(&self, o: &Decimal256) -> (r: Ordering) { unimplemented!() } }
impl OrdSpecImpl for Decimal256 {
    open spec fn obeys_cmp_spec() -> bool { true }
    open spec fn cmp_spec(&self, o: &Decimal256) -> Ordering {
        if self.0.v() < o.0.v() { Ordering::Less } else if self.0.v() == o.0.v() { Ordering::Equal } else { Ordering::Greater }
    }
}
pub broadcast proof fn axiom_uint256_into_self(x: Uint256) ensures #[trigger] IntoSpec::<Uint256>::into_spec(x) == x { admit(); }
#[verifier::allow(broadcast_without_trigger)]
pub broadcast proof fn axiom_uint256_into_obeys() ensures <Uint256 as IntoSpec<Uint256>>::obeys_into_spec() { admit(); }

impl Decimal256 {
//%item packages/bignumber/src/math.rs const DECIMAL_FRACTIONAL

//%fn packages/bignumber/src/math.rs | impl Decimal256 | one
//%%sig
    ensures
        /*[C08 dec.one]*/ r.0.v() == dd(),
//%%head
        broadcast use mlem::lemma_decimal_fractional;
//%end

//%fn packages/bignumber/src/math.rs | impl Decimal256 | zero
//%%sig
    ensures
        /*[C08 dec.zero]*/ r.0.v() == 0,
//%%head
        reveal(U256::v);
//%end

//%fn packages/bignumber/src/math.rs | impl Decimal256 | percent
//%%sig
    ensures
        /*[C08 dec.percent]*/ r.0.v() == (x as nat) * 10_000_000_000_000_000nat,
//%%head
        assert((x as nat) * 10_000_000_000_000_000nat < p256()) by { assert((x as nat) < p64()); }
//%end

//%fn packages/bignumber/src/math.rs | impl Decimal256 | permille
//%%sig
    ensures
        /*[C08 dec.permille]*/ r.0.v() == (x as nat) * 1_000_000_000_000_000nat,
//%%head
        assert((x as nat) * 1_000_000_000_000_000nat < p256()) by { assert((x as nat) < p64()); }
//%end

//%fn packages/bignumber/src/math.rs | impl Decimal256 | from_ratio
//%%sig
//%if A
    requires
        <A as IntoSpec<U256>>::obeys_into_spec() && <B as IntoSpec<U256>>::obeys_into_spec(),
        IntoSpec::<U256>::into_spec(denominator).v() != 0,
        IntoSpec::<U256>::into_spec(nominator).v() * dd() < p256(),
    ensures
        /*[C08,C01,C03,C06,C12 dec.from_ratio.exact]*/ r.0.v() == IntoSpec::<U256>::into_spec(nominator).v() * dd() / IntoSpec::<U256>::into_spec(denominator).v(),
//%else
    ensures
        <A as IntoSpec<U256>>::obeys_into_spec() && <B as IntoSpec<U256>>::obeys_into_spec() ==> ({
            let n = IntoSpec::<U256>::into_spec(nominator).v(); let d = IntoSpec::<U256>::into_spec(denominator).v();
            /*[C08,C01,C03,C06,C12 dec.from_ratio.exact]*/ d != 0 && n * dd() < p256() && r.0.v() == n * dd() / d }),
//%endif
//%%head
        broadcast use mlem::lemma_decimal_fractional;
//%end

//%fn packages/bignumber/src/math.rs | impl Decimal256 | from_uint256
//%%sig
//%if A
    requires
        <A as IntoSpec<Uint256>>::obeys_into_spec(),
        IntoSpec::<Uint256>::into_spec(val).0.v() * dd() < p256(),
    ensures
        /*[C08,C01,C03,C06,C12 dec.from_uint256.exact]*/ r.0.v() == IntoSpec::<Uint256>::into_spec(val).0.v() * dd(),
//%else
    ensures
        <A as IntoSpec<Uint256>>::obeys_into_spec() ==> ({
            let n = IntoSpec::<Uint256>::into_spec(val).0.v();
            /*[C08,C01,C03,C06,C12 dec.from_uint256.exact]*/ n * dd() < p256() && r.0.v() == n * dd() }),
//%endif
//%%head
        broadcast use mlem::lemma_decimal_fractional;
//%end

//%fn packages/bignumber/src/math.rs | impl Decimal256 | is_zero
//%%sig
    ensures
        /*[C08 dec.is_zero]*/ r == (self.0.v() == 0),
//%end
}

impl ops::Add for Decimal256 {
    type Output = Self;
//%fn packages/bignumber/src/math.rs | impl ops::Add for Decimal256 | add
//%%sig
    ensures
//%if A
        /*[C08,C12,C10,C15,C05 dec.add.exact]*/ r.0.v() == self.0.v() + rhs.0.v(),
//%else
        /*[C08,C12,C10,C15,C05 dec.add.exact]*/ self.0.v() + rhs.0.v() < p256() && r.0.v() == self.0.v() + rhs.0.v(),
//%endif
//%end
}
impl AddSpecImpl for Decimal256 {
    open spec fn obeys_add_spec() -> bool { false }
//%if A
    open spec fn add_req(self, rhs: Decimal256) -> bool { self.0.v() + rhs.0.v() < p256() }
//%else
    open spec fn add_req(self, rhs: Decimal256) -> bool { true }
//%endif
    open spec fn add_spec(self, rhs: Decimal256) -> Decimal256 { arbitrary() }
}

impl ops::AddAssign for Decimal256 {
//%fn packages/bignumber/src/math.rs | impl ops::AddAssign for Decimal256 | add_assign
//%%sig
//%if A
    ensures
        /*[C08 dec.add_assign.exact]*/ final(self).0.v() == old(self).0.v() + rhs.0.v(),
//%else
    ensures
        /*[C08 dec.add_assign.exact]*/ old(self).0.v() + rhs.0.v() < p256() && final(self).0.v() == old(self).0.v() + rhs.0.v(),
//%endif
//%end
}
impl AddAssignSpecImpl for Decimal256 {
    open spec fn obeys_add_assign_spec() -> bool { false }
//%if A
    open spec fn add_assign_req(&self, rhs: Decimal256) -> bool { self.0.v() + rhs.0.v() < p256() }
//%else
    open spec fn add_assign_req(&self, rhs: Decimal256) -> bool { true }
//%endif
    open spec fn add_assign_spec(&self, rhs: Decimal256) -> &Decimal256 { arbitrary() }
}

impl ops::Sub for Decimal256 {
    type Output = Self;
//%fn packages/bignumber/src/math.rs | impl ops::Sub for Decimal256 | sub
//%%sig
    ensures
//%if A
        /*[C08,C01,C03,C06,C12 dec.sub.exact]*/ r.0.v() == self.0.v() - rhs.0.v(),
//%else
        /*[C08,C01,C03,C06,C12 dec.sub.exact]*/ self.0.v() >= rhs.0.v() && r.0.v() == self.0.v() - rhs.0.v(),
//%endif
//%end
}
impl SubSpecImpl for Decimal256 {
    open spec fn obeys_sub_spec() -> bool { false }
//%if A
    open spec fn sub_req(self, rhs: Decimal256) -> bool { self.0.v() >= rhs.0.v() }
//%else
    open spec fn sub_req(self, rhs: Decimal256) -> bool { true }
//%endif
    open spec fn sub_spec(self, rhs: Decimal256) -> Decimal256 { arbitrary() }
}

impl ops::Mul for Decimal256 {
    type Output = Self;
//%fn packages/bignumber/src/math.rs | impl ops::Mul for Decimal256 | mul
//%%sig
    ensures
//%if A
        /*[C08,C12,C10,C15,C05 dec.mul.exact]*/ r.0.v() == self.0.v() * rhs.0.v() / dd(),
//%else
        /*[C08,C12,C10,C15,C05 dec.mul.exact]*/ self.0.v() * rhs.0.v() < p256() && r.0.v() == self.0.v() * rhs.0.v() / dd(),
//%endif
//%%head
        broadcast use mlem::lemma_decimal_fractional;
//%end
}
impl MulSpecImpl for Decimal256 {
    open spec fn obeys_mul_spec() -> bool { false }
//%if A
    open spec fn mul_req(self, rhs: Decimal256) -> bool { self.0.v() * rhs.0.v() < p256() }
//%else
    open spec fn mul_req(self, rhs: Decimal256) -> bool { true }
//%endif
    open spec fn mul_spec(self, rhs: Decimal256) -> Decimal256 { arbitrary() }
}

impl ops::Div for Decimal256 {
    type Output = Self;
//%fn packages/bignumber/src/math.rs | impl ops::Div for Decimal256 | div
//%%sig
    ensures
//%if A
        /*[C08,C12,C10,C15,C05 dec.div.exact]*/ r.0.v() == self.0.v() * dd() / rhs.0.v(),
//%else
        /*[C08,C12,C10,C15,C05 dec.div.exact]*/ rhs.0.v() != 0 && self.0.v() * dd() < p256() && r.0.v() == self.0.v() * dd() / rhs.0.v(),
//%endif
//%%head
        broadcast use mlem::lemma_decimal_fractional;
//%end
}
impl DivSpecImpl for Decimal256 {
    open spec fn obeys_div_spec() -> bool { false }
//%if A
    open spec fn div_req(self, rhs: Decimal256) -> bool { rhs.0.v() != 0 && self.0.v() * dd() < p256() }
//%else
    open spec fn div_req(self, rhs: Decimal256) -> bool { true }
//%endif
    open spec fn div_spec(self, rhs: Decimal256) -> Decimal256 { arbitrary() }
}

impl Uint256 {
//%fn packages/bignumber/src/math.rs | impl Uint256 | zero
//%%sig
    ensures
        /*[C08 uint.zero]*/ r.0.v() == 0,
//%%head
        reveal(U256::v);
//%end

//%fn packages/bignumber/src/math.rs | impl Uint256 | one
//%%sig
    ensures
        /*[C08 uint.one]*/ r.0.v() == 1,
//%%head
        reveal(U256::v);
//%end

//%fn packages/bignumber/src/math.rs | impl Uint256 | is_zero
//%%sig
    ensures
        /*[C08 uint.is_zero]*/ r == (self.0.v() == 0),
//%end

//%fn packages/bignumber/src/math.rs | impl Uint256 | multiply_ratio
//%%sig
//%if A
    requires
        <A as IntoSpec<U256>>::obeys_into_spec() && <B as IntoSpec<U256>>::obeys_into_spec(),
        IntoSpec::<U256>::into_spec(denom).v() != 0,
        self.0.v() * IntoSpec::<U256>::into_spec(nom).v() < p256(),
    ensures
        /*[C08,C12,C10,C15,C05 uint.multiply_ratio.exact]*/ r.0.v() == self.0.v() * IntoSpec::<U256>::into_spec(nom).v() / IntoSpec::<U256>::into_spec(denom).v(),
//%else
    ensures
        <A as IntoSpec<U256>>::obeys_into_spec() && <B as IntoSpec<U256>>::obeys_into_spec() ==> ({
            let n = IntoSpec::<U256>::into_spec(nom).v(); let d = IntoSpec::<U256>::into_spec(denom).v();
            /*[C08,C12,C10,C15,C05 uint.multiply_ratio.exact]*/ d != 0 && self.0.v() * n < p256() && r.0.v() == self.0.v() * n / d }),
//%endif
//%end
}

impl From<U256> for Uint256 {
//%fn packages/bignumber/src/math.rs | impl From<U256> for Uint256 | from
//%%sig
    ensures
        /*[C08 uint.from_u256]*/ r.0 == val,
//%end
}
impl FromSpecImpl<U256> for Uint256 {
    open spec fn obeys_from_spec() -> bool { true }
    open spec fn from_spec(val: U256) -> Self { Uint256(val) }
}
impl From<Uint256> for U256 {
//%fn packages/bignumber/src/math.rs | impl From<Uint256> for U256 | from
//%%sig
    ensures
        /*[C08 uint.into_u256]*/ r == val.0,
//%end
}
impl FromSpecImpl<Uint256> for U256 {
    open spec fn obeys_from_spec() -> bool { true }
    open spec fn from_spec(val: Uint256) -> Self { val.0 }
}

//%fn packages/bignumber/src/math.rs | - | split_u128
//%%sig
    ensures
        /*[C08,C18,C01,C03,C06,C12 widen.split]*/ (r.0 as nat) * p64() + (r.1 as nat) == a as nat,
//%%head
    assert((((a >> 64) as u64) as nat) * 0x1_0000_0000_0000_0000nat + (((a & 0xFFFFFFFFFFFFFFFF) as u64) as nat) == a as nat) by(bit_vector);
//%end

impl From<Uint128> for Uint256 {
//%fn packages/bignumber/src/math.rs | impl From<Uint128> for Uint256 | from
//%%sig
    ensures
        /*[C08,C18,C01,C03,C06,C12 widen.from_uint128]*/ r.0.v() == val.0 as nat,
//%end
}
impl FromSpecImpl<Uint128> for Uint256 {
    open spec fn obeys_from_spec() -> bool { false }
    open spec fn from_spec(val: Uint128) -> Self { arbitrary() }
}
impl From<u128> for Uint256 {
//%fn packages/bignumber/src/math.rs | impl From<u128> for Uint256 | from
//%%sig
    ensures
        /*[C08,C18,C01,C03,C06,C12 widen.from_u128]*/ r.0.v() == val as nat,
//%%insert before #1 /Uint256\(U256\(/
        reveal(U256::v);
//%end
}
impl FromSpecImpl<u128> for Uint256 {
    open spec fn obeys_from_spec() -> bool { false }
    open spec fn from_spec(val: u128) -> Self { arbitrary() }
}
impl From<u64> for Uint256 {
//%fn packages/bignumber/src/math.rs | impl From<u64> for Uint256 | from
//%%sig
    ensures
        /*[C08,C18 widen.from_u64]*/ r.0.v() == val as nat,
//%end
}
impl FromSpecImpl<u64> for Uint256 {
    open spec fn obeys_from_spec() -> bool { false }
    open spec fn from_spec(val: u64) -> Self { arbitrary() }
}

//%if A
// mode A: a trait method cannot carry `requires` (and vstd's FromSpecImpl has no from_req), so the two
// narrowing conversions are lifted to free functions by a declared rewrite of the signature only.
//%fn packages/bignumber/src/math.rs | impl From<Uint256> for u128 | from
//%%rewrite #1 /fn from\(n: Uint256\) -> Self/ => fn lifted_u128_from_uint256(n: Uint256) -> u128 ## mode A only: lift trait method to a free fn so it can carry a precondition
//%%sig
    requires
        n.0.v() < p128(),
    ensures
        /*[C08,C18,C01,C03,C06,C12 narrow.u128]*/ r as nat == n.0.v(),
//%%head
        reveal(U256::v);
        proof { mlem::lemma_limbs_small(n.0); }
//%%insert before #1 /\(\(hi as u128\) << 64\)/
        assert(((hi as u128) << 64) == (hi as u128) * 0x1_0000_0000_0000_0000u128) by(bit_vector);
        assert((hi as u128) * 0x1_0000_0000_0000_0000u128 + (low as u128) <= 0xFFFF_FFFF_FFFF_FFFF_FFFF_FFFF_FFFF_FFFFu128) by {
            assert((hi as nat) < p64() && (low as nat) < p64());
            assert((hi as nat) * p64() <= (p64() - 1) * p64()) by(nonlinear_arith) requires (hi as nat) < p64();
        }
//%end
//%fn packages/bignumber/src/math.rs | impl From<Uint256> for Uint128 | from
//%%rewrite #1 /fn from\(n: Uint256\) -> Self/ => fn lifted_uint128_from_uint256(n: Uint256) -> Uint128 ## mode A only: lift trait method to a free fn so it can carry a precondition
//%%rewrite #1 /let num: u128 = n\.into\(\);/ => let num: u128 = lifted_u128_from_uint256(n); ## mode A only: call the lifted conversion
//%%sig
    requires
        n.0.v() < p128(),
    ensures
        /*[C08,C18,C01,C03,C06,C12 narrow.uint128]*/ r.0 as nat == n.0.v(),
//%end
// (the trait impls themselves are kept, unverified, only so that callers outside the mode-A scope still compile; their
//  contract claims nothing about aborts: "if it fits, the value is preserved")
impl From<Uint256> for u128 { #[verifier::external_body] fn from(n: Uint256) -> (r: Self) ensures n.0.v() < p128() ==> r as nat == n.0.v() { unimplemented!() } }
impl FromSpecImpl<Uint256> for u128 {
    open spec fn obeys_from_spec() -> bool { false }
    open spec fn from_spec(n: Uint256) -> Self { arbitrary() }
}
impl From<Uint256> for Uint128 { #[verifier::external_body] fn from(n: Uint256) -> (r: Self) ensures n.0.v() < p128() ==> r.0 as nat == n.0.v() { unimplemented!() } }
impl FromSpecImpl<Uint256> for Uint128 {
    open spec fn obeys_from_spec() -> bool { false }
    open spec fn from_spec(n: Uint256) -> Self { arbitrary() }
}
//%else
impl From<Uint256> for u128 {
//%fn packages/bignumber/src/math.rs | impl From<Uint256> for u128 | from
//%%sig
    ensures
        /*[C08,C18,C01,C03,C06,C12 narrow.u128]*/ n.0.v() < p128() && r as nat == n.0.v(),
//%%head
        reveal(U256::v);
//%%insert before #1 /\(\(hi as u128\) << 64\)/
        assert(((hi as u128) << 64) == (hi as u128) * 0x1_0000_0000_0000_0000u128) by(bit_vector);
        assert((hi as u128) * 0x1_0000_0000_0000_0000u128 + (low as u128) <= 0xFFFF_FFFF_FFFF_FFFF_FFFF_FFFF_FFFF_FFFFu128) by {
            assert((hi as nat) < p64() && (low as nat) < p64());
            assert((hi as nat) * p64() <= (p64() - 1) * p64()) by(nonlinear_arith) requires (hi as nat) < p64();
        }
//%end
}
impl FromSpecImpl<Uint256> for u128 {
    open spec fn obeys_from_spec() -> bool { false }
    open spec fn from_spec(n: Uint256) -> Self { arbitrary() }
}
impl From<Uint256> for Uint128 {
//%fn packages/bignumber/src/math.rs | impl From<Uint256> for Uint128 | from
//%%sig
    ensures
        /*[C08,C18,C01,C03,C06,C12 narrow.uint128]*/ n.0.v() < p128() && r.0 as nat == n.0.v(),
//%end
}
impl FromSpecImpl<Uint256> for Uint128 {
    open spec fn obeys_from_spec() -> bool { false }
    open spec fn from_spec(n: Uint256) -> Self { arbitrary() }
}
//%endif

impl ops::Add for Uint256 {
    type Output = Self;
//%fn packages/bignumber/src/math.rs | impl ops::Add for Uint256 | add
//%%sig
    ensures
//%if A
        /*[C08,C01,C03,C06,C12 uint.add.exact]*/ r.0.v() == self.0.v() + rhs.0.v(),
//%else
        /*[C08,C01,C03,C06,C12 uint.add.exact]*/ self.0.v() + rhs.0.v() < p256() && r.0.v() == self.0.v() + rhs.0.v(),
//%endif
//%end
}
impl AddSpecImpl for Uint256 {
    open spec fn obeys_add_spec() -> bool { false }
//%if A
    open spec fn add_req(self, rhs: Uint256) -> bool { self.0.v() + rhs.0.v() < p256() }
//%else
    open spec fn add_req(self, rhs: Uint256) -> bool { true }
//%endif
    open spec fn add_spec(self, rhs: Uint256) -> Uint256 { arbitrary() }
}
impl ops::AddAssign for Uint256 {
//%fn packages/bignumber/src/math.rs | impl ops::AddAssign for Uint256 | add_assign
//%%sig
//%if A
    ensures
        /*[C08 uint.add_assign.exact]*/ final(self).0.v() == old(self).0.v() + other.0.v(),
//%else
    ensures
        /*[C08 uint.add_assign.exact]*/ old(self).0.v() + other.0.v() < p256() && final(self).0.v() == old(self).0.v() + other.0.v(),
//%endif
//%end
}
impl AddAssignSpecImpl for Uint256 {
    open spec fn obeys_add_assign_spec() -> bool { false }
//%if A
    open spec fn add_assign_req(&self, rhs: Uint256) -> bool { self.0.v() + rhs.0.v() < p256() }
//%else
    open spec fn add_assign_req(&self, rhs: Uint256) -> bool { true }
//%endif
    open spec fn add_assign_spec(&self, rhs: Uint256) -> &Uint256 { arbitrary() }
}
impl ops::Sub for Uint256 {
    type Output = Self;
//%fn packages/bignumber/src/math.rs | impl ops::Sub for Uint256 | sub
//%%sig
    ensures
//%if A
        /*[C08,C01,C03,C06,C12 uint.sub.exact]*/ r.0.v() == self.0.v() - rhs.0.v(),
//%else
        /*[C08,C01,C03,C06,C12 uint.sub.exact]*/ self.0.v() >= rhs.0.v() && r.0.v() == self.0.v() - rhs.0.v(),
//%endif
//%end
}
impl SubSpecImpl for Uint256 {
    open spec fn obeys_sub_spec() -> bool { false }
//%if A
    open spec fn sub_req(self, rhs: Uint256) -> bool { self.0.v() >= rhs.0.v() }
//%else
    open spec fn sub_req(self, rhs: Uint256) -> bool { true }
//%endif
    open spec fn sub_spec(self, rhs: Uint256) -> Uint256 { arbitrary() }
}
impl ops::Mul<Uint256> for Uint256 {
    type Output = Self;
//%fn packages/bignumber/src/math.rs | impl ops::Mul<Uint256> for Uint256 | mul
//%%sig
    ensures
//%if A
        /*[C08,C01,C03,C06,C12 uint.mul.exact]*/ r.0.v() == self.0.v() * rhs.0.v(),
//%else
        /*[C08,C01,C03,C06,C12 uint.mul.exact]*/ self.0.v() * rhs.0.v() < p256() && r.0.v() == self.0.v() * rhs.0.v(),
//%endif
//%%head
        proof { mlem::lemma_mul_zero(self.0.v(), rhs.0.v()); }
//%end
}
impl MulSpecImpl<Uint256> for Uint256 {
    open spec fn obeys_mul_spec() -> bool { false }
//%if A
    open spec fn mul_req(self, rhs: Uint256) -> bool { self.0.v() * rhs.0.v() < p256() }
//%else
    open spec fn mul_req(self, rhs: Uint256) -> bool { true }
//%endif
    open spec fn mul_spec(self, rhs: Uint256) -> Uint256 { arbitrary() }
}
impl ops::Mul<Decimal256> for Uint256 {
    type Output = Self;
//%fn packages/bignumber/src/math.rs | impl ops::Mul<Decimal256> for Uint256 | mul
//%%sig
    ensures
//%if A
        /*[C08,C06,C01,C03,C12 uint.mul_dec.exact]*/ r.0.v() == self.0.v() * rhs.0.v() / dd(),
//%else
        /*[C08,C06,C01,C03,C12 uint.mul_dec.exact]*/ self.0.v() * rhs.0.v() < p256() && r.0.v() == self.0.v() * rhs.0.v() / dd(),
//%endif
//%%head
        broadcast use mlem::lemma_decimal_fractional;
        proof { mlem::lemma_mul_zero(self.0.v(), rhs.0.v()); }
//%end
}
impl MulSpecImpl<Decimal256> for Uint256 {
    open spec fn obeys_mul_spec() -> bool { false }
//%if A
    open spec fn mul_req(self, rhs: Decimal256) -> bool { self.0.v() * rhs.0.v() < p256() }
//%else
    open spec fn mul_req(self, rhs: Decimal256) -> bool { true }
//%endif
    open spec fn mul_spec(self, rhs: Decimal256) -> Uint256 { arbitrary() }
}
impl ops::Div<Decimal256> for Uint256 {
    type Output = Self;
//%fn packages/bignumber/src/math.rs | impl ops::Div<Decimal256> for Uint256 | div
//%%sig
    ensures
//%if A
        /*[C08,C12,C10,C15,C05 uint.div_dec.exact]*/ r.0.v() == self.0.v() * dd() / rhs.0.v(),
//%else
        /*[C08,C12,C10,C15,C05 uint.div_dec.exact]*/ rhs.0.v() != 0 && self.0.v() * dd() < p256() && r.0.v() == self.0.v() * dd() / rhs.0.v(),
//%endif
//%%head
        broadcast use mlem::lemma_decimal_fractional;
        proof { mlem::lemma_mul_zero(self.0.v(), dd()); }
//%end
}
impl DivSpecImpl<Decimal256> for Uint256 {
    open spec fn obeys_div_spec() -> bool { false }
//%if A
    open spec fn div_req(self, rhs: Decimal256) -> bool { rhs.0.v() != 0 && self.0.v() * dd() < p256() }
//%else
    open spec fn div_req(self, rhs: Decimal256) -> bool { true }
//%endif
    open spec fn div_spec(self, rhs: Decimal256) -> Uint256 { arbitrary() }
}
impl ops::Mul<Uint256> for Decimal256 {
    type Output = Uint256;
//%fn packages/bignumber/src/math.rs | impl ops::Mul<Uint256> for Decimal256 | mul
//%%sig
    ensures
//%if A
        /*[C08,C01,C03,C06,C12 dec.mul_uint.exact]*/ r.0.v() == rhs.0.v() * self.0.v() / dd(),
//%else
        /*[C08,C01,C03,C06,C12 dec.mul_uint.exact]*/ rhs.0.v() * self.0.v() < p256() && r.0.v() == rhs.0.v() * self.0.v() / dd(),
//%endif
//%end
}
impl MulSpecImpl<Uint256> for Decimal256 {
    open spec fn obeys_mul_spec() -> bool { false }
//%if A
    open spec fn mul_req(self, rhs: Uint256) -> bool { rhs.0.v() * self.0.v() < p256() }
//%else
    open spec fn mul_req(self, rhs: Uint256) -> bool { true }
//%endif
    open spec fn mul_spec(self, rhs: Uint256) -> Uint256 { arbitrary() }
}
