// ===== packages/haloswap/src/formulas.rs : reverse pricing and slippage helpers =====
//%fn packages/haloswap/src/formulas.rs | - | compute_offer_amount
//%%sig
    ensures
        /*[C12 rev.pinned]*/ rev_pinned(offer_pool.0 as nat, ask_pool.0 as nat, ask_amount.0 as nat, commission_rate.0.v(), r.0.0 as nat),
        /*[C12 rev.not-above]*/ c12_not_above(offer_pool.0 as nat, ask_pool.0 as nat, ask_amount.0 as nat, commission_rate.0.v(), r.0.0 as nat),
        /*[C12 rev.rounding-bound]*/ c12_rounding_bound(offer_pool.0 as nat, ask_pool.0 as nat, ask_amount.0 as nat, commission_rate.0.v(), r.0.0 as nat),
//%%head
    broadcast use mlem::lemma_decimal_fractional;
//%%insert before #1 /^\s*\($/
    proof {
        mlem::lemma_rev_props(offer_pool.0.v(), ask_pool.0.v(), ask_amount.0.v(), commission_rate.0.v());
    }
//%end

//%fn packages/haloswap/src/formulas.rs | - | calc_price_drop
//%%sig
    ensures
        /*[C15 slip.price-drop]*/ ask_deposits.0.v() != 0 && r.0.v() == (offer_deposits.0.v() * dd() / ask_deposits.0.v()) * one_minus_slippage_tolerance.0.v() / dd(),
//%end

//%fn packages/haloswap/src/formulas.rs | - | calc_slippage_tolerance
//%%sig
    ensures
        /*[C15 slip.ratio]*/ ask_pool.0.v() != 0 && r.0.v() == offer_pool.0.v() * dd() / ask_pool.0.v(),
//%end
