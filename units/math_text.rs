// ===== packages/bignumber/src/math.rs : text conversions (function text extracted from /repo) =====
// a numeral: a string of ASCII digits.  The EMPTY numeral reads as zero: the repository's own unit test (decimal_from_str_works) pins
// from_str("") == 0 and from_str("1.") == 1, so "", ".5", "5." and "." are inputs of the accepted grammar (the doc comment on from_str
// calls "" and ".23" disallowed; bigint's from_dec_str reads "" as 0).  This is the grammar C18's "accepted input" refers to here.
pub open spec fn is_numeral(s: Seq<char>) -> bool { all_digits(s) }
// what a decimal text denotes: whole[.fraction], both numerals, at most 18 fractional digits; value in 10^-18 atomics
pub open spec fn text_denotes(s: Seq<char>, atomics: nat) -> bool {
    let parts = split_seq(s, '.');
    (parts.len() == 1 && is_numeral(parts[0]) && atomics == dec_value(parts[0]) * dd())
    || (parts.len() == 2 && is_numeral(parts[0]) && is_numeral(parts[1]) && parts[1].len() <= 18
        && atomics == dec_value(parts[0]) * dd() + dec_value(parts[1]) * p10n((18 - parts[1].len()) as nat))
}
// texts the parser must accept: one or two '.'-separated numerals whose values fit 256 bits, at most 18 fractional digits
pub open spec fn text_accepted(s: Seq<char>) -> bool {
    let parts = split_seq(s, '.');
    (parts.len() == 1 && is_numeral(parts[0]) && dec_value(parts[0]) < p256())
    || (parts.len() == 2 && is_numeral(parts[0]) && is_numeral(parts[1]) && parts[1].len() <= 18 && dec_value(parts[0]) < p256() && dec_value(parts[1]) < p256())
}
// canonical rendering: whole part, then '.' and the 18-digit fraction without trailing zeros when the fraction is not zero
pub open spec fn pad18(f: nat) -> Seq<char> { repeat_seq(seq!['0'], (18 - digits(f).len()) as nat) + digits(f) }
pub open spec fn render_dec(atomics: nat) -> Seq<char> {
    if atomics % dd() == 0 { digits(atomics / dd()) } else { digits(atomics / dd()).push('.') + trim_end(pad18(atomics % dd()), '0') }
}
// digit strings are ASCII
pub proof fn lemma_digits_ascii_all()
    ensures forall|s: Seq<char>| #[trigger] all_digits(s) ==> all_ascii(s)
{
    assert forall|s: Seq<char>| #[trigger] all_digits(s) implies all_ascii(s) by {
        assert forall|i: int| 0 <= i < s.len() implies (#[trigger] s[i] as u32) < 128 by { assert(is_digit(s[i])); }
    }
}
// the canonical numeral consists of digits; n < 10^k has at most k of them
pub proof fn lemma_digits_props(n: nat)
    ensures all_digits(digits(n)), digits(n).len() >= 1
    decreases n
{
    if n >= 10 { lemma_digits_props(n / 10); }
}
pub proof fn lemma_dd_pow() ensures dd() == vstd::arithmetic::power::pow(10, 18) { assert(vstd::arithmetic::power::pow(10, 18) == 1_000_000_000_000_000_000int) by(compute); }
pub proof fn lemma_dd_lt_p256() ensures dd() < p256() { assert(p256() > 1_000_000_000_000_000_000nat) by(compute); }
pub proof fn lemma_p10_le_dd(k: nat)
    requires k <= 18
    ensures p10n(k) <= dd()
    decreases 18 - k
{
    lemma_dd_pow();
    if k < 18 { lemma_p10_le_dd(k + 1); lemma_p10_step(k); }
}
pub proof fn lemma_digits_len(n: nat, k: nat)
    requires n < vstd::arithmetic::power::pow(10, k), k >= 1
    ensures digits(n).len() <= k
    decreases k
{
    vstd::arithmetic::power::lemma_pow1(10);
    reveal(vstd::arithmetic::power::pow);
    if n >= 10 {
        assert(k >= 2) by { if k == 1 { assert(vstd::arithmetic::power::pow(10, 1) == 10); } }
        assert(vstd::arithmetic::power::pow(10, k) == 10 * vstd::arithmetic::power::pow(10, (k - 1) as nat));
        assert(n / 10 < vstd::arithmetic::power::pow(10, (k - 1) as nat)) by(nonlinear_arith) requires n < 10 * vstd::arithmetic::power::pow(10, (k - 1) as nat);
        lemma_digits_len(n / 10, (k - 1) as nat);
    }
}
// C18 round trip for Decimal256: the canonical rendering of d is accepted, denotes d, and denotes nothing else
pub proof fn lemma_c18_dec_roundtrip(d: nat)
    requires d < p256()
    ensures /*[C18 text.dec-roundtrip]*/ text_accepted(render_dec(d)) && text_denotes(render_dec(d), d) && (forall|a: nat| text_denotes(render_dec(d), a) ==> a == d)
{
    let whole = d / dd(); let f = d % dd();
    lemma_fundamental_div_mod(d as int, dd() as int);
    assert(whole <= d) by(nonlinear_arith) requires d == dd() * whole + f, dd() >= 1;
    let a = digits(whole);
    lemma_digits_no_dot(whole);
    lemma_value_of_digits(whole);
    if f == 0 {
        lemma_split_none(a);
        assert(dd() * whole == whole * dd()) by(nonlinear_arith);
        assert(render_dec(d) == a);
        assert(split_seq(render_dec(d), '.') == seq![a]);
        assert(seq![a].len() == 1 && seq![a][0] == a);
        assert(text_accepted(render_dec(d)));
        assert(text_denotes(render_dec(d), d));
    } else {
        lemma_dd_pow();
        lemma_digits_props(f); lemma_digits_len(f, 18); lemma_digits_no_dot(f); lemma_value_of_digits(f);
        let k = (18 - digits(f).len()) as nat;
        let p = pad18(f);
        lemma_zeros(k);
        lemma_leading_zeros(k, digits(f));
        assert(p == zeros(k) + digits(f));
        assert(p.len() == 18);
        assert(all_digits(p)) by { assert forall|i: int| 0 <= i < p.len() implies is_digit(#[trigger] p[i]) by { if i < k { assert(p[i] == zeros(k)[i]); } else { assert(p[i] == digits(f)[i - k]); } } }
        lemma_trim_value(p);
        let t = trim_end(p, '0');
        lemma_no_dot(t);
        lemma_split_one(a, t);
        assert(render_dec(d) == a.push('.') + t);
        lemma_p10_step((18 - t.len()) as nat);
        assert(dec_value(t) <= f) by(nonlinear_arith) requires f == dec_value(t) * p10n((18 - t.len()) as nat), p10n((18 - t.len()) as nat) >= 1;
        assert(dd() * whole == whole * dd()) by(nonlinear_arith);
        let parts = split_seq(render_dec(d), '.');
        assert(parts == seq![a, t]);
        assert(parts.len() == 2 && parts[0] == a && parts[1] == t);
        assert(dec_value(t) < p256());
        assert(text_accepted(render_dec(d)));
        assert(text_denotes(render_dec(d), d));
    }
}
impl Decimal256 {
//%fn packages/bignumber/src/math.rs | impl FromStr for Decimal256 | from_str
//%%rewrite #1 /Result<Self, Self::Err>/ => Result<Self, StdError> ## the FromStr impl is lifted to an inherent function (the std trait cannot be implemented for the shim types' error plumbing); `Self::Err` is spelled out
//%%rewrite #1 /input\.split\('\.'\)\.collect\(\)/ => vsplit_collect(input, '.') ## R4: str::split(char).collect::<Vec<&str>>() -> assumed helper (std)
//%%rewrite #1 /parts\[1\]\.len\(\)/ => vlen_str(parts[1]) ## str::len (byte length) -> assumed helper
//%%sig
//%if A
    requires text_accepted(input@), forall|a: nat| text_denotes(input@, a) ==> a < p256(),
//%endif
    ensures
//%if A
        /*[C18 dec.parse.no-abort]*/ r is Ok,
//%endif
        /*[C18 dec.parse.denotes]*/ r is Ok ==> text_denotes(input@, r->Ok_0.0.v()),
        /*[C18 dec.parse.accepts]*/ text_accepted(input@) ==> r is Ok,
        /*[C18 dec.parse.rejects-long-fraction]*/ split_seq(input@, '.').len() == 2 && all_digits(split_seq(input@, '.')[1]) && split_seq(input@, '.')[1].len() > 18 ==> r is Err,
        /*[C18 dec.parse.rejects-other-shapes]*/ split_seq(input@, '.').len() > 2 ==> r is Err,
//%%head
        broadcast use {mlem::lemma_decimal_fractional, axiom_utf8_len_ascii};
        proof { lemma_digits_ascii_all(); }
//%%insert before #1 /let fractional_factor = /
                proof {
                    assert(all_digits(parts@[1]@));
                    assert(all_ascii(parts@[1]@));
                    /*[C18 dec.parse.exponent]*/ assert(exp as nat == 18 - parts@[1]@.len());
                    lemma_p10_step(exp as nat);
                    lemma_p10_le_dd(exp as nat);
                    lemma_dd_lt_p256();
                    let a = dec_value(parts@[0]@) * dd() + dec_value(parts@[1]@) * p10n(exp as nat);
                    assert(split_seq(input@, '.').len() == 2 && split_seq(input@, '.')[0] == parts@[0]@ && split_seq(input@, '.')[1] == parts@[1]@);
                    assert(text_denotes(input@, a));
                }
//%%insert before #1 /let whole_as_atomics = /
                proof {
                    let a = dec_value(parts@[0]@) * dd();
                    assert(split_seq(input@, '.').len() == 1 && split_seq(input@, '.')[0] == parts@[0]@);
                    assert(text_denotes(input@, a));
                }
//%end

//%fn packages/bignumber/src/math.rs | impl fmt::Display for Decimal256 | fmt
//%%rewrite #1 /write!\(f, "\{\}", whole\)/ => f.write_str(&whole.to_string()) ## write!(f, "{}", x) with x: U256 = the Display text of x written to f
//%%rewrite #1 /"0"\.repeat\(18 - (\w+)\.len\(\)\) \+ &(\w+)/ => vconcat("0".repeat(18 - vlen_str(&\1)), &\2) ## String + &str and str::len -> assumed helpers (std)
//%%sig
    ensures
//%if A
        /*[C18 dec.render.no-abort]*/ r is Ok,
//%endif
        /*[C18 dec.render.canonical]*/ r is Ok ==> final(f).out@ == old(f).out@ + render_dec(self.0.v()),
//%%head
        broadcast use {mlem::lemma_decimal_fractional, axiom_utf8_len_ascii, axiom_pat_char};
        proof { lemma_digits_ascii_all(); reveal_strlit("0"); }
//%%insert before #1 /^            Ok\(\(\)\)$/
            proof {
                assert("0"@ =~= seq!['0']);
                /*[C18 dec.render.witness]*/ assert(f.out@ =~= old(f).out@ + render_dec(self.0.v()));
            }
//%%insert before #1 /let \w+ = fractional\.to_string\(\);/
            proof { lemma_dd_pow(); lemma_digits_props(fractional.v()); lemma_digits_len(fractional.v(), 18); }
//%end
}

// cosmwasm_std::Decimal (128-bit atomics): Display is the same canonical form; FromStr parses the same grammar except that it requires
// non-empty numerals (u128::from_str) -- ASSUMED (dependency), stated with this file's spec functions
pub open spec fn text_accepted_strict(s: Seq<char>) -> bool { let parts = split_seq(s, '.'); text_accepted(s) && parts[0].len() >= 1 && (parts.len() == 2 ==> parts[1].len() >= 1) }
impl Decimal {
    #[verifier::external_body] pub fn to_string(&self) -> (r: String) ensures r@ == render_dec(self.0 as nat) { unimplemented!() }
    #[verifier::external_body] pub fn from_str(s: &str) -> (r: StdResult<Decimal>)
        ensures r is Ok ==> text_denotes(s@, r->Ok_0.0 as nat),
            (text_accepted_strict(s@) && forall|a: nat| text_denotes(s@, a) ==> a <= u128::MAX) ==> r is Ok { unimplemented!() }
}

impl Decimal256 {
// stands for std's blanket ToString impl over the Display impl above (VERIFIED against fmt's contract)
pub fn to_string(&self) -> (r: String)
    ensures /*[C18 dec.to_string]*/ r@ == render_dec(self.0.v()),
{
    let mut f = fmt::Formatter::new_buffer();
    let res = self.fmt(&mut f);
    f.finish(res)
}
//%fn packages/bignumber/src/math.rs | impl Serialize for Decimal256 | serialize
//%%sig
    ensures /*[C18 dec.serialize]*/ r == serializer.str_result(render_dec(self.0.v())),
//%end
}
pub struct Decimal256Visitor { pub dummy: u8 }
impl Decimal256Visitor {
//%fn packages/bignumber/src/math.rs | impl<'de> de::Visitor<'de> for Decimal256Visitor | visit_str
//%%rewrite #1 /Result<Self::Value, E>/ => Result<Decimal256, E> ## the Visitor impl is lifted to an inherent function; `Self::Value` (= Decimal256, associated type of the impl) is spelled out
//%%sig
    ensures
        /*[C18 dec.deserialize.denotes]*/ r is Ok ==> text_denotes(v@, r->Ok_0.0.v()),
        /*[C18 dec.deserialize.accepts]*/ text_accepted(v@) ==> r is Ok,
//%end
}

// ---- Uint256 ----
impl Uint256 {
//%fn packages/bignumber/src/math.rs | impl FromStr for Uint256 | from_str
//%%rewrite #1 /Result<Self, Self::Err>/ => Result<Self, StdError> ## FromStr impl lifted to an inherent function; `Self::Err` spelled out
//%%sig
    ensures
        /*[C18 uint.parse.denotes]*/ r is Ok ==> all_digits(input@) && r->Ok_0.0.v() == dec_value(input@),
        /*[C18 uint.parse.accepts]*/ all_digits(input@) && dec_value(input@) < p256() ==> r is Ok,
//%end
//%fn packages/bignumber/src/math.rs | impl TryFrom<&str> for Uint256 | try_from
//%%rewrite #1 /Result<Self, Self::Error>/ => Result<Self, StdError> ## TryFrom impl lifted to an inherent function; `Self::Error` spelled out
//%%sig
    ensures
        /*[C18 uint.try_from.denotes]*/ r is Ok ==> all_digits(val@) && r->Ok_0.0.v() == dec_value(val@),
        /*[C18 uint.try_from.accepts]*/ all_digits(val@) && dec_value(val@) < p256() ==> r is Ok,
//%end
//%fn packages/bignumber/src/math.rs | impl fmt::Display for Uint256 | fmt
//%%rewrite #1 /write!\(f, "\{\}", self\.0\)/ => f.write_str(&self.0.to_string()) ## write!(f, "{}", x) with x: U256 = the Display text of x written to f
//%%sig
    ensures /*[C18 uint.render.canonical]*/ r is Ok ==> final(f).out@ == old(f).out@ + digits(self.0.v()),
//%end
pub fn to_string(&self) -> (r: String)
    ensures /*[C18 uint.to_string]*/ r@ == digits(self.0.v()),
{
    let mut f = fmt::Formatter::new_buffer();
    let res = self.fmt(&mut f);
    f.finish(res)
}
//%fn packages/bignumber/src/math.rs | impl Serialize for Uint256 | serialize
//%%sig
    ensures /*[C18 uint.serialize]*/ r == serializer.str_result(digits(self.0.v())),
//%end
}
pub struct Uint256Visitor { pub dummy: u8 }
impl Uint256Visitor {
//%fn packages/bignumber/src/math.rs | impl<'de> de::Visitor<'de> for Uint256Visitor | visit_str
//%%rewrite #1 /Result<Self::Value, E>/ => Result<Uint256, E> ## Visitor impl lifted; `Self::Value` (= Uint256) spelled out
//%%sig
    ensures
        /*[C18 uint.deserialize.denotes]*/ r is Ok ==> all_digits(v@) && r->Ok_0.0.v() == dec_value(v@),
        /*[C18 uint.deserialize.accepts]*/ all_digits(v@) && dec_value(v@) < p256() ==> r is Ok,
//%end
}
// From<Uint256> for String
//%fn packages/bignumber/src/math.rs | impl From<Uint256> for String | from
//%%rewrite #1 /fn from\(n: Uint256\) -> Self/ => fn string_from_uint256(n: Uint256) -> String ## the From<Uint256> for String impl is lifted to a free function (String is a foreign type here)
//%%sig
    ensures /*[C18 uint.into-string]*/ r@ == digits(n.0.v()),
//%end

// C18 round trip for Uint256: the canonical numeral is accepted and denotes the number
pub proof fn lemma_c18_uint_roundtrip(n: nat)
    requires n < p256()
    ensures /*[C18 text.uint-roundtrip]*/ all_digits(digits(n)) && dec_value(digits(n)) == n
{
    lemma_digits_props(n); lemma_value_of_digits(n);
}

// ---- Decimal <-> Decimal256 (implemented through text in math.rs).  The other units ASSUME `From<Decimal> for Decimal256` preserves the
// value (units/math_decimal_conv.rs); here the same function text is PROVED to do so, from the two text contracts and the round-trip lemma ----
//%fn packages/bignumber/src/math.rs | impl From<Decimal> for Decimal256 | from
//%%rewrite #1 /fn from\(val: Decimal\) -> Self/ => pub fn decimal256_from_decimal(val: Decimal) -> Decimal256 ## the From impl is lifted to a free function (the trait impl itself is the assumed one in units/math_decimal_conv.rs)
//%%sig
    ensures /*[C18,C08,C10,C15 widen.decimal-to-decimal256]*/ r.0.v() == val.0 as nat,
//%%head
    proof { lemma_u128_lt_p256(val.0); lemma_c18_dec_roundtrip(val.0 as nat); }
//%end
//%fn packages/bignumber/src/math.rs | impl From<Decimal256> for Decimal | from
//%%rewrite #1 /fn from\(n: Decimal256\) -> Self/ => pub fn decimal_from_decimal256(n: Decimal256) -> Decimal ## the From impl is lifted to a free function (Decimal is a shim type)
//%%sig
    ensures /*[C18,C08 narrow.decimal256-to-decimal]*/ r.0 as nat == n.0.v(),
//%%head
    proof { axiom_u256_bound(n.0); lemma_c18_dec_roundtrip(n.0.v()); }
//%end
pub proof fn lemma_u128_lt_p256(x: u128) ensures (x as nat) < p256() { assert(p256() > 0xffff_ffff_ffff_ffff_ffff_ffff_ffff_ffffnat) by(compute); }
