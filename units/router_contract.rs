// ===== contracts/halo-router/src/contract.rs (function text extracted from /repo) =====
//%fn contracts/halo-router/src/contract.rs | - | optional_addr_validate
//%%sig
    ensures /*[C13,C11,C07 router.optional-addr]*/ r is Ok ==> (addr is Some <==> r->Ok_0 is Some) && (addr is Some ==> r->Ok_0->Some_0.0@ == addr->Some_0@),
//%end

// the self-call that performs hop k of a route; only the LAST hop carries the final recipient
pub open spec fn hop_call_msg(router: Seq<char>, op: SwapOperation, to: Option<Seq<char>>, m: CosmosMsg) -> bool {
    m matches CosmosMsg::Wasm(WasmMsg::Execute { contract_addr, msg, funds }) && contract_addr@ == router && funds@.len() == 0
        && exists|t: Option<String>| #![trigger bin_of(ExecuteMsg::ExecuteSwapOperation { operation: op, to: t })]
            (t is Some <==> to is Some) && (t is Some ==> t->Some_0@ == to->Some_0) && msg == bin_of(ExecuteMsg::ExecuteSwapOperation { operation: op, to: t })
}
pub open spec fn min_receive_msg(router: Seq<char>, asset_info: AssetInfo, prev: Uint128, min: Uint128, receiver: Seq<char>, m: CosmosMsg) -> bool {
    m matches CosmosMsg::Wasm(WasmMsg::Execute { contract_addr, msg, funds }) && contract_addr@ == router && funds@.len() == 0
        && exists|rc: String| #![trigger bin_of(ExecuteMsg::AssertMinimumReceive { asset_info, prev_balance: prev, minimum_receive: min, receiver: rc })]
            rc@ == receiver && msg == bin_of(ExecuteMsg::AssertMinimumReceive { asset_info, prev_balance: prev, minimum_receive: min, receiver: rc })
}
pub open spec fn route_msgs_ok(w: World, router: Seq<char>, ops: Seq<SwapOperation>, min: Option<Uint128>, to: Seq<char>, msgs: Seq<CosmosMsg>) -> bool {
    ops.len() > 0
    && msgs.len() == ops.len() + (if min is Some { 1int } else { 0int })
    && (forall|k: int| 0 <= k < ops.len() ==> hop_call_msg(router, ops[k], if k == ops.len() - 1 { Some(to) } else { None }, #[trigger] msgs[k]))
    && (min is Some ==> min_receive_msg(router, op_ask(ops[ops.len() - 1]), Uint128(balance_of(w, op_ask(ops[ops.len() - 1]), to) as u128), min->Some_0, to, msgs[ops.len() as int]))
}

//%fn contracts/halo-router/src/contract.rs | - | execute_swap_operations
//%%rewrite #1 /operations\s*\.into_iter\(\)\s*\.map\(\|op\| \{/ => Vec::new();\n    for op in it3: operations.into_iter()\n    {\n        let item: StdResult<CosmosMsg> = { ## R6': `.into_iter().map(closure).collect::<StdResult<Vec<_>>>()?` over a closure capturing `&mut` (rejected by Verus) is unrolled into the equivalent loop: an inner `?` and the collected Err both return the first error from the function
//%%rewrite #1 /\}\)\s*\.collect::<StdResult<Vec<CosmosMsg>>>\(\)\?;/ => };\n        messages.push(item?);\n    } ## closes the loop opened by the previous rewrite
//%%sig
    ensures
        /*[C13 route.empty-rejected]*/ operations@.len() == 0 ==> r is Err,
        /*[C13 route.shape-enforced]*/ r is Ok ==> dangling(operations@).len() == 1,
        /*[C11,C13,C07 route.messages]*/ r is Ok ==> route_msgs_ok(deps.querier.world(), env.contract.address.0@, operations@, minimum_receive,
            (if to is Some { to->Some_0.0@ } else { sender.0@ }), r->Ok_0.msgs()),
        /*[C14,C07 route.no-write]*/ *final(deps.storage) == *old(deps.storage),
//%%insert before #1 /let mut operation_index = 0;/
    let ghost ops0 = operations@;
    let ghost router = env.contract.address.0@;
//%%loop 1
        invariant 0 <= it3.index@ <= ops0.len(), operation_index == it3.index@, operations_len == ops0.len(), ops0.len() > 0, ops0 == operations@,
            router == env.contract.address.0@,
            /*[C11,C13,C07 route.loop.count]*/ messages@.len() == it3.index@,
            /*[C11,C13,C07 route.loop.hops]*/ forall|k: int| 0 <= k < it3.index@ ==> hop_call_msg(router, ops0[k], if k == ops0.len() - 1 { Some(to.0@) } else { None }, #[trigger] messages@[k]),
//%%insert before #1 /^    Ok\(Response::new\(\)\.add_messages\(messages\)\)/
    proof {
        /*[C11,C13,C07 route.witness]*/ assert(route_msgs_ok(deps.querier.world(), router, ops0, minimum_receive, to.0@, messages@));
    }
//%end

// ---- entry points (C14: internal messages only from the router itself; C11/C13 reach execute_swap_operations unchanged) ----
//%fn contracts/halo-router/src/contract.rs | - | receive_cw20
//%%sig
    ensures
        /*[C11,C13,C07 hook-route.messages]*/ decode::<Cw20HookMsg>(cw20_msg.msg) matches Ok(Cw20HookMsg::ExecuteSwapOperations { operations, minimum_receive, to }) ==> r is Ok ==>
            route_msgs_ok(deps.querier.world(), env.contract.address.0@, operations@, minimum_receive, (if to is Some { to->Some_0@ } else { cw20_msg.sender@ }), r->Ok_0.msgs()),
        /*[C13 hook-route.shape-enforced]*/ decode::<Cw20HookMsg>(cw20_msg.msg) matches Ok(Cw20HookMsg::ExecuteSwapOperations { operations, minimum_receive, to }) ==> r is Ok ==> operations@.len() > 0 && dangling(operations@).len() == 1,
        /*[C14 hook-route.undecodable-rejected]*/ decode::<Cw20HookMsg>(cw20_msg.msg) is Err ==> r is Err,
//%end

//%fn contracts/halo-router/src/contract.rs | - | execute
//%%rewrite #1 /optional_addr_validate\(api, to\)\?\.map\(\|v\| v\.to_string\(\)\)/ => vmap_owned(optional_addr_validate(api, to)?, |v: Addr| -> (x: String) ensures x@ == v.0@ { v.to_string() }) ## R4: Option::map -> verified helper; closure annotated with its own (verified) ensures
//%%sig
    ensures
        /*[C11,C13,C07 exec-route.messages]*/ msg matches ExecuteMsg::ExecuteSwapOperations { operations, minimum_receive, to } ==> r is Ok ==>
            route_msgs_ok(deps.querier.world(), env.contract.address.0@, operations@, minimum_receive, (if to is Some { to->Some_0@ } else { info.sender.0@ }), r->Ok_0.msgs()),
        /*[C13 exec-route.shape-enforced]*/ msg matches ExecuteMsg::ExecuteSwapOperations { operations, minimum_receive, to } ==> r is Ok ==> operations@.len() > 0 && dangling(operations@).len() == 1,
        /*[C14,C13 exec-hop.only-self]*/ msg is ExecuteSwapOperation ==> r is Ok ==> env.contract.address.0@ == info.sender.0@,
        /*[C13,C07 exec-hop.spends-own-balance]*/ msg matches ExecuteMsg::ExecuteSwapOperation { operation, to } ==> r is Ok ==> old(deps.storage).config is Some && r->Ok_0.msgs().len() == 1 && ({
            let w = deps.querier.world(); let factory = human_of(old(deps.storage).config->Some_0.halo_factory.0@);
            hop_swap_msg(pair_of(w, factory, op_offer(operation), op_ask(operation)),
                Asset { info: op_offer(operation), amount: Uint128(balance_of(w, op_offer(operation), env.contract.address.0@) as u128) }, None, to, r->Ok_0.msgs()[0]) }),
        /*[C14,C11 exec-minrecv.only-self]*/ msg is AssertMinimumReceive ==> r is Ok ==> env.contract.address.0@ == info.sender.0@,
        /*[C11 exec-minrecv.enforced]*/ msg matches ExecuteMsg::AssertMinimumReceive { asset_info, prev_balance, minimum_receive, receiver } ==> r is Ok ==>
            balance_of(deps.querier.world(), asset_info, receiver@) >= prev_balance.0 as nat + minimum_receive.0 as nat && r->Ok_0.msgs().len() == 0,
//%end

// ---- quotes along a route (C12): the hop-by-hop composition of the pair queries ----
pub open spec fn sim_fold(w: World, factory: Seq<char>, ops: Seq<SwapOperation>, amount: Uint128) -> Uint128 decreases ops.len() {
    if ops.len() == 0 { amount } else {
        let prev = sim_fold(w, factory, ops.drop_last(), amount); let op = ops.last();
        sim_return(w, pair_of(w, factory, op_offer(op), op_ask(op)), Asset { info: op_offer(op), amount: prev })
    }
}
pub open spec fn rev_fold(w: World, factory: Seq<char>, ops: Seq<SwapOperation>, amount: Uint128) -> Uint128 decreases ops.len() {
    if ops.len() == 0 { amount } else {
        let nxt = rev_fold(w, factory, ops.drop_first(), amount); let op = ops.first();
        rev_offer(w, pair_of(w, factory, op_offer(op), op_ask(op)), Asset { info: op_ask(op), amount: nxt })
    }
}
//%fn contracts/halo-router/src/contract.rs | - | simulate_swap_operations
//%%rewrite #1 /for operation in (operations\.into_iter\(\)[^{]*?) \{/ => for operation in it: \1 { ## name the loop's ghost iterator
//%%sig
    ensures
        /*[C12,C13 route-sim.composition]*/ r is Ok ==> deps.storage.config is Some && operations@.len() > 0
            && r->Ok_0.amount == sim_fold(deps.querier.world(), human_of(deps.storage.config->Some_0.halo_factory.0@), operations@, offer_amount),
        /*[C13 route-sim.empty-rejected]*/ operations@.len() == 0 ==> r is Err,
//%%head
    let ghost amount0 = offer_amount; let ghost ops0 = operations@;
//%%loop 1
        invariant 0 <= it.index@ <= ops0.len(), ops0 == operations@, halo_factory.0@ == human_of(config.halo_factory.0@),
            /*[C12,C13 route-sim.loop]*/ offer_amount == sim_fold(deps.querier.world(), halo_factory.0@, ops0.take(it.index@ as int), amount0),
//%%insert before #1 /let pair_info: PairInfo = query_pair_info\(/
                proof {
                    let pre = ops0.take(it.index@ as int); let nxt = ops0.take(it.index@ as int + 1);
                    assert(nxt.drop_last() =~= pre);
                    assert(nxt.last() == ops0[it.index@ as int]);
                }
//%%insert before #1 /^    Ok\(SimulateSwapOperationsResponse \{$/
    proof { assert(ops0.take(ops0.len() as int) =~= ops0); }
//%end

//%fn contracts/halo-router/src/contract.rs | - | reverse_simulate_return_amount
//%%sig
    ensures
        /*[C12 route-rev.hop]*/ r is Ok ==> r->Ok_0 == rev_offer(deps.querier.world(), pair_of(deps.querier.world(), factory.0@, offer_asset_info, ask_asset_info), Asset { info: ask_asset_info, amount: ask_amount }),
//%end

//%fn contracts/halo-router/src/contract.rs | - | reverse_simulate_swap_operations
//%%rewrite #1 /for operation in operations\.into_iter\(\)\.rev\(\) \{/ => let mut ridx: usize = operations.len();\n    while ridx > 0\n    {\n        ridx = ridx - 1;\n        let operation = operations[ridx].clone(); ## R6': `for x in v.into_iter().rev()` (no vstd spec for Rev) -> the equivalent index loop from the back; the element is cloned instead of moved
//%%sig
    ensures
        /*[C12,C13 route-rev.composition]*/ r is Ok ==> deps.storage.config is Some && operations@.len() > 0
            && r->Ok_0.amount == rev_fold(deps.querier.world(), human_of(deps.storage.config->Some_0.halo_factory.0@), operations@, ask_amount),
        /*[C13 route-rev.empty-rejected]*/ operations@.len() == 0 ==> r is Err,
//%%head
    let ghost amount0 = ask_amount; let ghost ops0 = operations@;
//%%loop 1
        invariant 0 <= ridx <= ops0.len(), ops0 == operations@, deps.storage.config is Some, config == deps.storage.config->Some_0,
            /*[C12,C13 route-rev.loop]*/ ask_amount == rev_fold(deps.querier.world(), human_of(config.halo_factory.0@), ops0.subrange(ridx as int, ops0.len() as int), amount0),
        decreases ridx,
//%%insert before #1 /let halo_factory = deps\.api\.addr_humanize\(&config\.halo_factory\)\?;/
                proof {
                    let cur = ops0.subrange(ridx as int, ops0.len() as int); let nxt = ops0.subrange(ridx as int + 1, ops0.len() as int);
                    assert(cur.drop_first() =~= nxt);
                    assert(cur.first() == ops0[ridx as int]);
                }
//%%insert before #1 /^    Ok\(SimulateSwapOperationsResponse \{ amount: ask_amount \}\)/
    proof { assert(ops0.subrange(0, ops0.len() as int) =~= ops0); }
//%end
