// ===== lemma library for math.rs (pure facts about naturals / the limb representation) =====
#[verifier::allow(broadcast_without_trigger)]
pub broadcast proof fn lemma_decimal_fractional() ensures Decimal256::DECIMAL_FRACTIONAL.v() == dd() { reveal(U256::v); }
pub proof fn lemma_mul_zero(a: nat, b: nat) ensures (a == 0 || b == 0) ==> a * b == 0, a * b == b * a { assert(a * b == b * a) by(nonlinear_arith); assert((a == 0 || b == 0) ==> a * b == 0) by(nonlinear_arith); }
pub proof fn lemma_limbs_small(x: U256)
    requires x.v() < p128()
    ensures x.0[2] == 0, x.0[3] == 0, x.v() == x.0[0] as nat + (x.0[1] as nat) * p64()
{
    reveal(U256::v);
    assert(p64() * p64() == p128()) by(compute);
    if x.0[2] != 0 { assert((x.0[2] as nat) * p64() * p64() >= p64() * p64()) by(nonlinear_arith) requires x.0[2] as nat >= 1; assert((x.0[3] as nat) * p64() * p64() * p64() >= 0) by(nonlinear_arith); assert((x.0[1] as nat) * p64() >= 0) by(nonlinear_arith); }
    if x.0[3] != 0 { assert((x.0[3] as nat) * p64() * p64() * p64() >= p64() * p64()) by(nonlinear_arith) requires x.0[3] as nat >= 1; assert((x.0[2] as nat) * p64() * p64() >= 0) by(nonlinear_arith); assert((x.0[1] as nat) * p64() >= 0) by(nonlinear_arith); }
}
