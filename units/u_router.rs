// unit: router -- halo-router contract (C11, C13, C14, C07, C12 router quotes)
#![feature(pattern)]
use vstd::prelude::*;
use vstd::std_specs::ops::*;
use vstd::std_specs::cmp::*;
use vstd::std_specs::convert::*;
use vstd::arithmetic::div_mod::*;
use vstd::arithmetic::mul::*;
use core::cmp::Ordering;
use core::ops;
verus! {
//%include common.rs
pub mod shim {
use super::*;
//%include shim_u256.rs
//%include shim_uint128.rs
//%include shim_cw.rs
//%include helpers.rs
//%include shim_fmt.rs
}
pub use shim::*;
pub mod math {
use super::*;
#[allow(unused_imports)] use super::shim::Decimal;
//%include math.rs
//%include math_decimal_conv.rs
}
pub use math::*;
pub mod mlem {
use super::*;
#[allow(unused_imports)] use super::shim::Decimal;
//%include mlem_math.rs
}
pub use mlem::*;
pub mod asset {
use super::*;
#[allow(unused_imports)] use super::shim::Decimal;
//%include haloswap_error.rs
//%include haloswap_asset.rs
}
pub use asset::*;
pub mod pairmsg {
use super::*;
#[allow(unused_imports)] use super::shim::Decimal;
//%include haloswap_pairmsg.rs
}
pub mod factoryq {
use super::*;
//%include haloswap_factoryq.rs
}
pub mod querier {
use super::*;
#[allow(unused_imports)] use super::shim::Decimal;
use super::factoryq::{NativeTokenDecimalsResponse, QueryMsg as FactoryQueryMsg};
use super::pairmsg::{QueryMsg as PairQueryMsg, ReverseSimulationResponse, SimulationResponse};
//%include haloswap_querier.rs
}
pub use querier::*;
pub mod router {
use super::*;
#[allow(unused_imports)] use super::shim::Decimal;
use super::pairmsg::Cw20HookMsg as PairHookMsg;
use super::pairmsg::{SimulationResponse, ReverseSimulationResponse};
use std::collections::HashMap;
broadcast use {axiom_string_eq_spec, axiom_string_obeys_eq, axiom_to_string_string, group_q_errors, axiom_string_ext};
//%include router_msgs.rs
//%include shim_router.rs
//%include router_state.rs
//%include router_assert.rs
//%include router_ops.rs
//%include router_contract.rs
//%include router_entry.rs
}
} // verus!
fn main() {}
