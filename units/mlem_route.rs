// ===== C13: pass-through of one intermediate hop over the ledger specification =====
// hop k pays `n` of asset `mid` to the router (its `to` is None); hop k+1 offers the router's WHOLE balance of `mid`
// (hop.spends-own-balance) to the next pair. With the router holding none of `mid` beforehand, hop k+1 offers exactly n and the
// router ends with none: nothing is retained, nothing is added.
pub proof fn lemma_route_hop(w: World, mid: AssetInfo, pair_k: Seq<char>, pair_next: Seq<char>, router: Seq<char>, n: nat)
    requires balance_of(w, mid, router) == 0, balance_of(w, mid, pair_k) >= n, pair_k != router, pair_next != router, n > 0
    ensures ({
        let w1 = moved(w, mid, pair_k, router, n);
        let offered = balance_of(w1, mid, router);
        let w2 = moved(w1, mid, router, pair_next, offered);
        /*[C13 route.hop.input-is-previous-output]*/ offered == n
        /*[C13 route.hop.intermediate-ends-at-zero]*/ && balance_of(w2, mid, router) == 0
        /*[C13 route.hop.next-pair-receives-it]*/ && (pair_next != pair_k ==> balance_of(w2, mid, pair_next) == balance_of(w, mid, pair_next) + n)
    }),
{
    let w1 = moved(w, mid, pair_k, router, n);
    lemma_moved(w, mid, pair_k, router, n, mid, pair_next);
    let offered = balance_of(w1, mid, router);
    lemma_moved(w1, mid, router, pair_next, offered, mid, pair_k);
}
