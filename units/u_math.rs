// unit: math  -- bignumber arithmetic (C08; width clauses of C18)
use vstd::prelude::*;
use vstd::std_specs::ops::*;
use vstd::std_specs::cmp::*;
use vstd::std_specs::convert::*;
use vstd::arithmetic::div_mod::*;
use vstd::arithmetic::mul::*;
use core::cmp::Ordering;
use core::ops;
verus! {
//%include common.rs
pub mod shim {
use super::*;
//%include shim_u256.rs
//%include shim_uint128.rs
}
pub use shim::*;
pub mod math {
use super::*;
//%include math.rs
}
pub use math::*;
pub mod mlem {
use super::*;
//%include mlem_math.rs
}
} // verus!
fn main() {}
