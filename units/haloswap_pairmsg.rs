// ===== packages/haloswap/src/pair.rs : message types =====
//%item packages/haloswap/src/pair.rs enum ExecuteMsg
//%item packages/haloswap/src/pair.rs enum Cw20HookMsg
//%item packages/haloswap/src/pair.rs struct SimulationResponse
//%item packages/haloswap/src/pair.rs struct ReverseSimulationResponse
