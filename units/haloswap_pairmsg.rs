// ===== packages/haloswap/src/pair.rs : message types =====
//%item packages/haloswap/src/pair.rs enum ExecuteMsg
//%item packages/haloswap/src/pair.rs enum Cw20HookMsg
//%item packages/haloswap/src/pair.rs enum QueryMsg
//%item packages/haloswap/src/pair.rs struct SimulationResponse
//%item packages/haloswap/src/pair.rs struct ReverseSimulationResponse
//%item packages/haloswap/src/pair.rs struct InstantiateMsg
//%item packages/haloswap/src/asset.rs struct LPTokenInfo
impl Clone for LPTokenInfo { #[verifier::external_body] fn clone(&self) -> (r: LPTokenInfo) ensures r == *self { unimplemented!() } }
