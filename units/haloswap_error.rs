// ===== packages/haloswap/src/error.rs =====
//%item packages/haloswap/src/error.rs enum ContractError
// thiserror `#[from]` conversions: ASSUMED to wrap the source error in the variant carrying #[from]
impl From<StdError> for ContractError { fn from(e: StdError) -> (r: ContractError) ensures r == ContractError::Std(e) { ContractError::Std(e) } }
impl FromSpecImpl<StdError> for ContractError {
    open spec fn obeys_from_spec() -> bool { true }
    open spec fn from_spec(e: StdError) -> ContractError { ContractError::Std(e) }
}
impl From<OverflowError> for ContractError { fn from(e: OverflowError) -> (r: ContractError) ensures r == ContractError::OverflowError(e) { ContractError::OverflowError(e) } }
impl FromSpecImpl<OverflowError> for ContractError {
    open spec fn obeys_from_spec() -> bool { true }
    open spec fn from_spec(e: OverflowError) -> ContractError { ContractError::OverflowError(e) }
}
// the `?` operator converts errors through From; vstd models that as the uninterpreted relation spec_from: ASSUMED to agree with the impls above
pub broadcast proof fn axiom_q_std_to_contract(e: StdError, e2: ContractError) ensures #[trigger] vstd::std_specs::control_flow::spec_from::<ContractError, StdError>(e, e2) ==> e2 == ContractError::Std(e) { admit(); }
pub broadcast proof fn axiom_q_overflow_to_contract(e: OverflowError, e2: ContractError) ensures #[trigger] vstd::std_specs::control_flow::spec_from::<ContractError, OverflowError>(e, e2) ==> e2 == ContractError::OverflowError(e) { admit(); }
pub broadcast proof fn axiom_q_contract_to_contract(e: ContractError, e2: ContractError) ensures #[trigger] vstd::std_specs::control_flow::spec_from::<ContractError, ContractError>(e, e2) ==> e2 == e { admit(); }
pub broadcast group group_q_errors { axiom_q_std_to_contract, axiom_q_overflow_to_contract, axiom_q_contract_to_contract }
