// ===== packages/haloswap/src/querier.rs (function text extracted from /repo) =====
// cosmwasm_std / cw20 query request and response shapes -- ASSUMED (dependencies)
pub enum BankQuery { Balance { address: String, denom: String }, AllBalances { address: String } }
pub enum WasmQuery { Smart { contract_addr: String, msg: Binary } }
pub enum QueryRequest { Bank(BankQuery), Wasm(WasmQuery) }
pub struct BalanceResponse { pub amount: Coin }
pub struct AllBalanceResponse { pub amount: Vec<Coin> }
pub struct Cw20BalanceResponse { pub balance: Uint128 }
pub enum Cw20QueryMsg { Balance { address: String }, TokenInfo {} }
// QuerierWrapper::query: one JSON round trip to the chain. `answer` is what the chain answers to a request, `query_ok` whether it answers
// at all; both are uninterpreted, the axioms below say what the bank module / a cw20 token answer in terms of the ledger `World`, and NAME the
// answers of the factory / pair queries (pair_of, sim_return, ...) -- ASSUMED (chain semantics), one place
pub uninterp spec fn answer<T>(w: World, req: QueryRequest) -> T;
pub uninterp spec fn query_ok(w: World, req: QueryRequest) -> bool;
// `chain_world(w)`: w is the state of an actual chain (balances fit 128 bits, one answer per request, ...). Only QuerierWrapper::query establishes it;
// every axiom below is conditional on it, so nothing can be derived about a World constructed inside a proof
pub uninterp spec fn chain_world(w: World) -> bool;
impl QuerierWrapper {
    #[verifier::external_body] pub fn query<T>(&self, request: &QueryRequest) -> (r: StdResult<T>)
//%if A
        ensures chain_world(self.world()), query_ok(self.world(), *request) ==> r is Ok, r is Ok ==> query_ok(self.world(), *request) && r->Ok_0 == answer::<T>(self.world(), *request)
//%else
        ensures chain_world(self.world()), r is Ok ==> query_ok(self.world(), *request) && r->Ok_0 == answer::<T>(self.world(), *request)
//%endif
    { unimplemented!() }
}
pub uninterp spec fn native_decimals_of(w: World, factory: Seq<char>, denom: Seq<char>) -> Option<u8>;   // the factory's NativeTokenDecimals query (None: unregistered)
pub uninterp spec fn pair_of(w: World, factory: Seq<char>, a: AssetInfo, b: AssetInfo) -> Seq<char>;    // contract address in the factory's answer to Pair{[a, b]}
pub uninterp spec fn sim_return(w: World, pair: Seq<char>, offer: Asset) -> Uint128;                     // return_amount of the pair's Simulation answer
pub uninterp spec fn rev_offer(w: World, pair: Seq<char>, ask: Asset) -> Uint128;                        // offer_amount of the pair's ReverseSimulation answer
pub uninterp spec fn pair_self_report(w: World, pair: Seq<char>) -> PairInfo;                            // what the pair's own Pair{} query answers

// bank module: Balance{address, denom} answers the ledger balance
pub broadcast proof fn axiom_q_bank_balance(w: World, address: String, denom: String)
    ensures chain_world(w) ==> ((#[trigger] answer::<BalanceResponse>(w, QueryRequest::Bank(BankQuery::Balance { address: address, denom: denom }))).amount.amount.0 as nat == w.bank_bal(address@, denom@)) { admit(); }
// cw20 token: Balance{address} answers the holder's ledger balance, TokenInfo{} the supply and the decimals
pub broadcast proof fn axiom_q_cw20_balance(w: World, token: String, address: String)
    ensures chain_world(w) ==> ((#[trigger] answer::<Cw20BalanceResponse>(w, QueryRequest::Wasm(WasmQuery::Smart { contract_addr: token, msg: bin_of(Cw20QueryMsg::Balance { address }) }))).balance.0 as nat == w.tok_bal(token@, address@)) { admit(); }
pub broadcast proof fn axiom_q_cw20_info(w: World, token: String)
    ensures chain_world(w) ==> (({ let t = #[trigger] answer::<TokenInfoResponse>(w, QueryRequest::Wasm(WasmQuery::Smart { contract_addr: token, msg: bin_of(Cw20QueryMsg::TokenInfo {}) }));
        t.total_supply.0 as nat == w.tok_supply(token@)
        && (query_ok(w, QueryRequest::Wasm(WasmQuery::Smart { contract_addr: token, msg: bin_of(Cw20QueryMsg::TokenInfo {}) })) ==> w.tok_decimals.dom().contains(token@) && t.decimals == w.tok_decimals[token@]) })) { admit(); }
//%if A
// no-abort mode (C20): balance and token_info queries about an existing token are answered
pub broadcast proof fn axiom_q_bank_ok(w: World, address: String, denom: String) ensures chain_world(w) ==> (#[trigger] query_ok(w, QueryRequest::Bank(BankQuery::Balance { address: address, denom: denom }))) { admit(); }
pub broadcast proof fn axiom_q_cw20_balance_ok(w: World, token: String, address: String) ensures chain_world(w) ==> (#[trigger] query_ok(w, QueryRequest::Wasm(WasmQuery::Smart { contract_addr: token, msg: bin_of(Cw20QueryMsg::Balance { address }) }))) { admit(); }
pub broadcast proof fn axiom_q_cw20_info_ok(w: World, token: String) ensures chain_world(w) ==> (#[trigger] query_ok(w, QueryRequest::Wasm(WasmQuery::Smart { contract_addr: token, msg: bin_of(Cw20QueryMsg::TokenInfo {}) }))) { admit(); }
//%endif
// factory / pair queries: the axioms only name the answers
pub broadcast proof fn axiom_q_native_decimals(w: World, factory: String, denom: String)
    ensures chain_world(w) ==> (query_ok(w, QueryRequest::Wasm(WasmQuery::Smart { contract_addr: factory, msg: bin_of(FactoryQueryMsg::NativeTokenDecimals { denom }) }))
        ==> native_decimals_of(w, factory@, denom@) == Some((#[trigger] answer::<NativeTokenDecimalsResponse>(w, QueryRequest::Wasm(WasmQuery::Smart { contract_addr: factory, msg: bin_of(FactoryQueryMsg::NativeTokenDecimals { denom }) }))).decimals)) { admit(); }
pub broadcast proof fn axiom_q_pair(w: World, factory: String, asset_infos: [AssetInfo; 2])
    ensures chain_world(w) ==> ((#[trigger] answer::<PairInfo>(w, QueryRequest::Wasm(WasmQuery::Smart { contract_addr: factory, msg: bin_of(FactoryQueryMsg::Pair { asset_infos }) }))).contract_addr@ == pair_of(w, factory@, asset_infos[0], asset_infos[1])) { admit(); }
pub broadcast proof fn axiom_q_sim(w: World, pair: String, offer_asset: Asset)
    ensures chain_world(w) ==> ((#[trigger] answer::<SimulationResponse>(w, QueryRequest::Wasm(WasmQuery::Smart { contract_addr: pair, msg: bin_of(PairQueryMsg::Simulation { offer_asset }) }))).return_amount == sim_return(w, pair@, offer_asset)) { admit(); }
pub broadcast proof fn axiom_q_rev(w: World, pair: String, ask_asset: Asset)
    ensures chain_world(w) ==> ((#[trigger] answer::<ReverseSimulationResponse>(w, QueryRequest::Wasm(WasmQuery::Smart { contract_addr: pair, msg: bin_of(PairQueryMsg::ReverseSimulation { ask_asset }) }))).offer_amount == rev_offer(w, pair@, ask_asset)) { admit(); }
pub broadcast proof fn axiom_q_self_report(w: World, pair: String)
    ensures chain_world(w) ==> (#[trigger] answer::<PairInfo>(w, QueryRequest::Wasm(WasmQuery::Smart { contract_addr: pair, msg: bin_of(PairQueryMsg::Pair {}) })) == pair_self_report(w, pair@)) { admit(); }
pub broadcast group group_chain_queries {
    axiom_q_bank_balance, axiom_q_cw20_balance, axiom_q_cw20_info, axiom_q_native_decimals, axiom_q_pair, axiom_q_sim, axiom_q_rev, axiom_q_self_report,
//%if A
    axiom_q_bank_ok, axiom_q_cw20_balance_ok, axiom_q_cw20_info_ok,
//%endif
}

//%fn packages/haloswap/src/querier.rs | - | query_balance
//%%sig
//%if A
    ensures /*[C20 querier.bank-balance.succeeds]*/ r is Ok, r->Ok_0.0 as nat == querier.world().bank_bal(account_addr.0@, denom@)
//%else
    ensures /*[C01,C03,C04,C05,C07,C09,C12,C11,C13,C02,C10,C15 querier.bank-balance]*/ r is Ok ==> r->Ok_0.0 as nat == querier.world().bank_bal(account_addr.0@, denom@)
//%endif
//%%head
    broadcast use group_chain_queries;
//%end

//%fn packages/haloswap/src/querier.rs | - | query_token_balance
//%%sig
//%if A
    ensures /*[C20 querier.token-balance.succeeds]*/ r is Ok, r->Ok_0.0 as nat == querier.world().tok_bal(contract_addr.0@, account_addr.0@)
//%else
    ensures /*[C01,C03,C04,C05,C07,C12,C11,C13,C02,C10,C15 querier.token-balance]*/ r is Ok ==> r->Ok_0.0 as nat == querier.world().tok_bal(contract_addr.0@, account_addr.0@)
//%endif
//%%head
    broadcast use group_chain_queries;
//%end

//%fn packages/haloswap/src/querier.rs | - | query_token_info
//%%sig
//%if A
    ensures /*[C20 querier.token-info.succeeds]*/ r is Ok, r->Ok_0.total_supply.0 as nat == querier.world().tok_supply(contract_addr.0@)
//%else
    ensures /*[C03,C04,C05,C16,C07,C20 querier.token-info]*/ r is Ok ==> r->Ok_0.total_supply.0 as nat == querier.world().tok_supply(contract_addr.0@)
        && querier.world().tok_decimals.dom().contains(contract_addr.0@) && r->Ok_0.decimals == querier.world().tok_decimals[contract_addr.0@]
//%endif
//%%head
    broadcast use group_chain_queries;
//%end

//%fn packages/haloswap/src/querier.rs | - | query_native_decimals
//%%sig
    ensures /*[C16,C17 querier.native-decimals]*/ r is Ok ==> native_decimals_of(querier.world(), factory_contract.0@, denom@) == Some(r->Ok_0),
        /*[C16,C17 querier.native-decimals.unregistered-fails]*/ native_decimals_of(querier.world(), factory_contract.0@, denom@) is None ==> r is Err
//%%head
    broadcast use group_chain_queries;
//%end

//%fn packages/haloswap/src/querier.rs | - | query_pair_info
//%%sig
    ensures /*[C11,C12,C13 querier.pair-info]*/ r is Ok ==> r->Ok_0.contract_addr@ == pair_of(querier.world(), factory_contract.0@, asset_infos[0], asset_infos[1])
//%%head
    broadcast use group_chain_queries;
//%end

//%fn packages/haloswap/src/querier.rs | - | simulate
//%%sig
    ensures /*[C12 querier.simulate]*/ r is Ok ==> r->Ok_0.return_amount == sim_return(querier.world(), pair_contract.0@, *offer_asset)
//%%head
    broadcast use group_chain_queries;
//%end

//%fn packages/haloswap/src/querier.rs | - | reverse_simulate
//%%sig
    ensures /*[C12 querier.reverse-simulate]*/ r is Ok ==> r->Ok_0.offer_amount == rev_offer(querier.world(), pair_contract.0@, *ask_asset)
//%%head
    broadcast use group_chain_queries;
//%end

//%fn packages/haloswap/src/querier.rs | - | query_pair_info_from_pair
//%%sig
    ensures /*[C16,C17 querier.pair-self-report]*/ r is Ok ==> r->Ok_0 == pair_self_report(querier.world(), pair_contract.0@)
//%%head
    broadcast use group_chain_queries;
//%end
