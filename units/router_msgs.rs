// ===== packages/haloswap/src/router.rs : message types =====
//%item packages/haloswap/src/router.rs enum SwapOperation
//%item packages/haloswap/src/router.rs enum ExecuteMsg
//%item packages/haloswap/src/router.rs enum Cw20HookMsg
//%item packages/haloswap/src/router.rs struct SimulateSwapOperationsResponse
impl Clone for SwapOperation { #[verifier::external_body] fn clone(&self) -> (r: SwapOperation) ensures r == *self { unimplemented!() } }
pub open spec fn op_offer(op: SwapOperation) -> AssetInfo { match op { SwapOperation::HaloSwap { offer_asset_info, ask_asset_info } => offer_asset_info } }
pub open spec fn op_ask(op: SwapOperation) -> AssetInfo { match op { SwapOperation::HaloSwap { offer_asset_info, ask_asset_info } => ask_asset_info } }
impl SwapOperation {
//%fn packages/haloswap/src/router.rs | impl SwapOperation | get_target_asset_info
//%%sig
    ensures /*[C11,C13 op.target]*/ r == op_ask(*self),
//%end
}
