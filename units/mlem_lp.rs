// ===== C03: LP share value reserve0*reserve1/supply^2 never decreases -- step lemmas over the handler contracts + induction over histories =====
// cross-multiplied comparison of the share value before (r0, r1, s) and after (q0, q1, t); both supplies positive
pub open spec fn lp_value_le(r0: nat, r1: nat, s: nat, q0: nat, q1: nat, t: nat) -> bool { (r0 * r1) * (t * t) <= (q0 * q1) * (s * s) }

pub proof fn lemma_mul_le(a: nat, b: nat, c: nat, d: nat) requires a <= b, c <= d ensures a * c <= b * d { assert(a * c <= b * d) by(nonlinear_arith) requires a <= b, c <= d; }

// a successful swap outside the recorded rounding window: supply unchanged, (x+a)*(y-n) >= x*y   [hypothesis = c01_no_overpay, an ensures of compute_swap / swap]
pub proof fn lemma_c03_swap(x: nat, y: nat, a: nat, n: nat, s: nat)
    requires c01_no_overpay(x, y, a, n), n <= y
    ensures /*[C03 step.swap]*/ lp_value_le(x, y, s, x + a, (y - n) as nat, s)
{
    assert((x * y) * (s * s) <= ((x + a) * ((y - n) as nat)) * (s * s)) by(nonlinear_arith) requires (x + a) * (y - n) >= x * y, n <= y;
}
// a successful provision on a pair with positive supply mints m with m*r_i <= d_i*s   [hypothesis = c05_fair_share, an ensures of calculate_lp_token_amount_to_user / provide_liquidity]
pub proof fn lemma_c03_provide(r0: nat, r1: nat, s: nat, d0: nat, d1: nat, m: nat)
    requires c05_fair_share(d0, d1, r0, r1, s, m)
    ensures /*[C03 step.provide]*/ lp_value_le(r0, r1, s, r0 + d0, r1 + d1, s + m)
{
    assert(r0 * (s + m) <= (r0 + d0) * s) by(nonlinear_arith) requires m * r0 <= d0 * s;
    assert(r1 * (s + m) <= (r1 + d1) * s) by(nonlinear_arith) requires m * r1 <= d1 * s;
    lemma_mul_le(r0 * (s + m), (r0 + d0) * s, r1 * (s + m), (r1 + d1) * s);
    assert((r0 * (s + m)) * (r1 * (s + m)) == (r0 * r1) * ((s + m) * (s + m))) by(nonlinear_arith);
    assert(((r0 + d0) * s) * ((r1 + d1) * s) == ((r0 + d0) * (r1 + d1)) * (s * s)) by(nonlinear_arith);
}
// a successful withdrawal of a out of s pays x_i with x_i*s <= r_i*a   [hypothesis = c04_bounds, an ensures of withdraw_liquidity]
pub proof fn lemma_c03_withdraw(r0: nat, r1: nat, s: nat, a: nat, x0: nat, x1: nat)
    requires c04_bounds(r0, a, s, x0), c04_bounds(r1, a, s, x1), a <= s, x0 <= r0, x1 <= r1
    ensures /*[C03 step.withdraw]*/ lp_value_le(r0, r1, s, (r0 - x0) as nat, (r1 - x1) as nat, (s - a) as nat)
{
    let t = (s - a) as nat; let q0 = (r0 - x0) as nat; let q1 = (r1 - x1) as nat;
    assert(r0 * t <= q0 * s) by(nonlinear_arith) requires x0 * s <= r0 * a, t == s - a, q0 == r0 - x0, a <= s, x0 <= r0;
    assert(r1 * t <= q1 * s) by(nonlinear_arith) requires x1 * s <= r1 * a, t == s - a, q1 == r1 - x1, a <= s, x1 <= r1;
    lemma_mul_le(r0 * t, q0 * s, r1 * t, q1 * s);
    assert((r0 * t) * (r1 * t) == (r0 * r1) * (t * t)) by(nonlinear_arith);
    assert((q0 * s) * (q1 * s) == (q0 * q1) * (s * s)) by(nonlinear_arith);
}
// donations (plain transfers into the pair) and LP transfers between holders: reserves grow or stay, supply unchanged
pub proof fn lemma_c03_donate(r0: nat, r1: nat, s: nat, e0: nat, e1: nat)
    ensures /*[C03 step.donate]*/ lp_value_le(r0, r1, s, r0 + e0, r1 + e1, s)
{
    lemma_mul_le(r0, r0 + e0, r1, r1 + e1);
    assert((r0 * r1) * (s * s) <= ((r0 + e0) * (r1 + e1)) * (s * s)) by(nonlinear_arith) requires r0 * r1 <= (r0 + e0) * (r1 + e1);
}
// the comparison is transitive while supplies stay positive: any finite history composes
pub proof fn lemma_c03_trans(a0: nat, a1: nat, s: nat, b0: nat, b1: nat, t: nat, c0: nat, c1: nat, u: nat)
    requires lp_value_le(a0, a1, s, b0, b1, t), lp_value_le(b0, b1, t, c0, c1, u), t > 0
    ensures /*[C03 history.transitive]*/ lp_value_le(a0, a1, s, c0, c1, u)
{
    let pa = a0 * a1; let pb = b0 * b1; let pc = c0 * c1; let ss = s * s; let tt = t * t; let uu = u * u;
    assert(tt > 0) by(nonlinear_arith) requires t > 0, tt == t * t;
    assert((pa * uu) * tt == (pa * tt) * uu) by(nonlinear_arith);
    assert((pa * tt) * uu <= (pb * ss) * uu) by(nonlinear_arith) requires pa * tt <= pb * ss;
    assert((pb * ss) * uu == (pb * uu) * ss) by(nonlinear_arith);
    assert((pb * uu) * ss <= (pc * tt) * ss) by(nonlinear_arith) requires pb * uu <= pc * tt;
    assert((pc * tt) * ss == (pc * ss) * tt) by(nonlinear_arith);
    assert(pa * uu <= pc * ss) by(nonlinear_arith) requires (pa * uu) * tt <= (pc * ss) * tt, tt > 0;
}
// a history is a sequence of pool states (r0, r1, supply) in which every consecutive pair is related by one of the step lemmas
// (a rejected call or a reverted transaction repeats the state); by induction the first and last states are related
pub open spec fn hist_ok(h: Seq<(nat, nat, nat)>) -> bool {
    forall|i: int| 0 <= i < h.len() - 1 ==> (#[trigger] h[i]).2 > 0 && h[i + 1].2 > 0 && lp_value_le(h[i].0, h[i].1, h[i].2, h[i + 1].0, h[i + 1].1, h[i + 1].2)
}
pub proof fn lemma_c03_history(h: Seq<(nat, nat, nat)>)
    requires h.len() >= 1, hist_ok(h), h[0].2 > 0
    ensures /*[C03 history.induction]*/ lp_value_le(h[0].0, h[0].1, h[0].2, h.last().0, h.last().1, h.last().2)
    decreases h.len()
{
    if h.len() == 1 {
        assert(lp_value_le(h[0].0, h[0].1, h[0].2, h[0].0, h[0].1, h[0].2));
    } else {
        let g = h.drop_last();
        assert forall|i: int| 0 <= i < g.len() - 1 implies (#[trigger] g[i]).2 > 0 && g[i + 1].2 > 0 && lp_value_le(g[i].0, g[i].1, g[i].2, g[i + 1].0, g[i + 1].1, g[i + 1].2) by {
            assert(g[i] == h[i] && g[i + 1] == h[i + 1]);
        }
        lemma_c03_history(g);
        let k = h.len() - 2;
        assert(h[k].2 > 0 && h[k + 1].2 > 0 && lp_value_le(h[k].0, h[k].1, h[k].2, h[k + 1].0, h[k + 1].1, h[k + 1].2));
        assert(g.last() == h[k] && h.last() == h[k + 1] && g[0] == h[0]);
        lemma_c03_trans(h[0].0, h[0].1, h[0].2, h[k].0, h[k].1, h[k].2, h.last().0, h.last().1, h.last().2);
    }
}
