// ===== C16: the registry key is symmetric in its arguments and injective over unordered asset sets =====
pub open spec fn same_id(x: AssetInfoRaw, y: AssetInfoRaw) -> bool { raw_native(x) == raw_native(y) && raw_bytes(x) == raw_bytes(y) }
pub proof fn lemma_lex_total(a: Seq<u8>, b: Seq<u8>)
    ensures lex_lt(a, b) ==> !lex_lt(b, a) && a != b, a != b ==> lex_lt(a, b) || lex_lt(b, a), !lex_lt(a, a)
    decreases a.len()
{
    if a.len() > 0 && b.len() > 0 && a[0] == b[0] {
        lemma_lex_total(a.drop_first(), b.drop_first());
        if a.drop_first() == b.drop_first() { assert(a =~= seq![a[0]] + a.drop_first()); assert(b =~= seq![b[0]] + b.drop_first()); }
    }
    if a.len() > 0 { lemma_lex_total(a.drop_first(), a.drop_first()); }
    if a.len() == 0 && b.len() == 0 { assert(a =~= b); }
}
pub proof fn lemma_key_order_flip(a: AssetInfoRaw, b: AssetInfoRaw)
    ensures key_order(a, b) is Less <==> key_order(b, a) is Greater, key_order(a, b) is Equal <==> key_order(b, a) is Equal,
        key_order(a, b) is Equal ==> same_id(a, b),
{
    lemma_lex_total(raw_bytes(a), raw_bytes(b)); lemma_lex_total(raw_bytes(b), raw_bytes(a));
}
// looking a pair up with its two assets in either order uses the same key
pub proof fn lemma_key_symmetric(a: AssetInfoRaw, b: AssetInfoRaw)
    ensures /*[C16 key.symmetric]*/ pair_key_spec(a, b) == pair_key_spec(b, a)
{
    lemma_key_order_flip(a, b); lemma_key_order_flip(b, a);
    if key_order(a, b) is Equal { assert(key_of(a, b) =~= key_of(b, a)); }
}
pub proof fn lemma_key_of_injective(l1: AssetInfoRaw, h1: AssetInfoRaw, l2: AssetInfoRaw, h2: AssetInfoRaw)
    requires key_of(l1, h1) == key_of(l2, h2), raw_bytes(l1).len() <= u64::MAX, raw_bytes(l2).len() <= u64::MAX
    ensures same_id(l1, l2) && same_id(h1, h2)
{
    broadcast use axiom_be8;
    let k1 = key_of(l1, h1); let k2 = key_of(l2, h2);
    let n1 = raw_bytes(l1).len(); let n2 = raw_bytes(l2).len();
    assert(k1[0] == tag_of(l1) && k2[0] == tag_of(l2));
    assert(k1.subrange(1, 9) =~= be8(n1 as u64));
    assert(k2.subrange(1, 9) =~= be8(n2 as u64));
    assert(n1 as u64 == n2 as u64);
    assert(n1 == n2);
    assert(k1.subrange(9, 9 + n1 as int) =~= raw_bytes(l1));
    assert(k2.subrange(9, 9 + n2 as int) =~= raw_bytes(l2));
    assert(k1[9 + n1 as int] == tag_of(h1) && k2[9 + n2 as int] == tag_of(h2));
    assert(k1.subrange(10 + n1 as int, k1.len() as int) =~= raw_bytes(h1));
    assert(k2.subrange(10 + n2 as int, k2.len() as int) =~= raw_bytes(h2));
}
// two different unordered asset sets never share a key
pub proof fn lemma_key_injective(a: AssetInfoRaw, b: AssetInfoRaw, c: AssetInfoRaw, d: AssetInfoRaw)
    requires pair_key_spec(a, b) == pair_key_spec(c, d),
        raw_bytes(a).len() <= u64::MAX, raw_bytes(b).len() <= u64::MAX, raw_bytes(c).len() <= u64::MAX, raw_bytes(d).len() <= u64::MAX,
    ensures /*[C16 key.injective]*/ (same_id(a, c) && same_id(b, d)) || (same_id(a, d) && same_id(b, c))
{
    let (l1, h1) = if key_order(b, a) is Less { (b, a) } else { (a, b) };
    let (l2, h2) = if key_order(d, c) is Less { (d, c) } else { (c, d) };
    lemma_key_of_injective(l1, h1, l2, h2);
}
