// ===== contracts/halo-router/src/assert.rs (function text extracted from /repo) =====
//%fn contracts/halo-router/src/assert.rs | - | assert_minium_receive
//%%sig
    ensures
        /*[C14,C11 minrecv.only-self]*/ r is Ok ==> env.contract.address.0@ == info.sender.0@,
        /*[C11 minrecv.enforced]*/ r is Ok ==> balance_of(deps.querier.world(), asset_info, receiver.0@) >= prev_balance.0 as nat + minium_receive.0 as nat,
        /*[C11,C07 minrecv.no-messages]*/ r is Ok ==> r->Ok_0.msgs().len() == 0,
//%end

// ---- route shape: exactly one dangling output asset (C13) ----
pub open spec fn label_str(i: AssetInfo) -> String { match i { AssetInfo::Token { contract_addr } => contract_addr, AssetInfo::NativeToken { denom } => denom } }
// the set "remove the offered asset, insert the asked asset", folded over the route in order
pub open spec fn dangling(ops: Seq<SwapOperation>) -> Set<String> decreases ops.len() {
    if ops.len() == 0 { Set::empty() } else { dangling(ops.drop_last()).remove(label_str(op_offer(ops.last()))).insert(label_str(op_ask(ops.last()))) }
}
//%fn contracts/halo-router/src/assert.rs | - | assert_operations
//%%rewrite #1 /for operation in operations\.iter\(\) \{/ => for operation in it: operations.iter() { ## name the loop's ghost iterator
//%%rewrite #1 /ask_asset_map\.keys\(\)\.len\(\)/ => ask_asset_map.len() ## R4: HashMap::keys().len() has no vstd spec; HashMap::len() is the same number and has one
//%%sig
    ensures
        /*[C13 route.single-output]*/ (r is Ok) == (dangling(operations@).len() == 1),
//%%head
    broadcast use vstd::std_specs::hash::group_hash_axioms;
    broadcast use {axiom_string_ext, axiom_string_key_model};
//%%loop 1
        invariant 0 <= it.index@ <= operations@.len(),
            /*[C13 route.loop.dangling]*/ ask_asset_map@.dom() == dangling(operations@.take(it.index@ as int)),
            ask_asset_map@.dom().finite(),
//%%insert before #1 /let \(offer_asset, ask_asset\) = match operation \{/
        broadcast use vstd::std_specs::hash::group_hash_axioms;
        broadcast use {axiom_string_ext, axiom_string_key_model};
        let ghost dom0 = ask_asset_map@.dom();
//%%insert after #1 /ask_asset_map\.insert\(ask_asset\.to_string\(\), true\);/
        proof {
            assert(*operation == operations@[it.index@ as int]);
            assert(offer_asset == op_offer(*operation) && ask_asset == op_ask(*operation));
            assert(ask_asset_map@.dom() =~= dom0.remove(label_str(offer_asset)).insert(label_str(ask_asset)));
            let pre = operations@.take(it.index@ as int); let nxt = operations@.take(it.index@ as int + 1);
            assert(nxt.drop_last() =~= pre);
            assert(nxt.last() == operations@[it.index@ as int]);
        }
//%%insert before #1 /if ask_asset_map\./
    proof { assert(operations@.take(operations@.len() as int) =~= operations@); }
//%end
