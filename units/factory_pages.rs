// ===== contracts/halo-factory/src/state.rs : paginated listing (C19) =====
// cw-storage-plus Bound / Map::range over the chain's ordered KV store -- ASSUMED (dependency):
//   the keys of a map have ONE strictly ascending listing; range(start = ExclusiveRaw(lo) | None, None, Ascending) yields, in that order, exactly the
//   records whose key is above lo
//%item contracts/halo-factory/src/state.rs const MAX_LIMIT
//%item contracts/halo-factory/src/state.rs const DEFAULT_LIMIT
pub enum Bound { ExclusiveRaw(Vec<u8>), InclusiveRaw(Vec<u8>) }
pub uninterp spec fn sorted_keys(p: Map<Seq<u8>, PairInfoRaw>) -> Seq<Seq<u8>>;
pub broadcast proof fn axiom_sorted_keys(p: Map<Seq<u8>, PairInfoRaw>)
    ensures p.dom().finite() ==> keys_sorted(#[trigger] sorted_keys(p)) && (forall|k: Seq<u8>| p.dom().contains(k) <==> sorted_keys(p).contains(k)) { admit(); }   // a finite set of byte strings has exactly one ascending listing
pub open spec fn bound_excl(start: Option<Bound>) -> Option<Seq<u8>> { match start { Some(Bound::ExclusiveRaw(v)) => Some(v@), _ => None } }
pub open spec fn range_from_ok(p: Map<Seq<u8>, PairInfoRaw>, lo: Option<Seq<u8>>, items: Seq<StdResult<(Vec<u8>, PairInfoRaw)>>) -> bool {
    let all = sorted_keys(p);
    exists|s: int| #![trigger split_at(all, lo, s)] split_at(all, lo, s) && items.len() == all.len() - s
        && (forall|i: int| 0 <= i < items.len() ==> (#[trigger] items[i]) is Ok && items[i]->Ok_0.0@ == all[s + i] && items[i]->Ok_0.1 == p[all[s + i]])
}
impl MapPairs {
    #[verifier::external_body] pub fn range_from(&self, s: &Storage, start: Option<Bound>) -> (r: Vec<StdResult<(Vec<u8>, PairInfoRaw)>>)
        ensures s.pairs@.dom().finite(), !(start matches Some(Bound::InclusiveRaw(_))) ==> range_from_ok(s.pairs@, bound_excl(start), r@) { unimplemented!() }   // a contract store holds finitely many records
}
// Iterator::take(n) on an owned vector: the first min(n, len) elements, in order (VERIFIED)
pub fn vtake<T>(v: Vec<T>, n: usize) -> (r: Vec<T>)
    ensures r@ == v@.subrange(0, if n < v@.len() { n as int } else { v@.len() as int }),
{
    let mut v = v;
    v.truncate(n);
    v
}

pub open spec fn page_limit(limit: Option<u32>) -> nat { let l = if limit is Some { limit->Some_0 } else { 10u32 }; if l > 30 { 30 } else { l as nat } }
pub open spec fn cursor_bound(start_after: Option<[AssetInfoRaw; 2]>) -> Option<Seq<u8>> {
    if start_after is Some { Some(cursor_after(pair_key_spec(start_after->Some_0[0], start_after->Some_0[1]))) } else { None }
}
// a page: the listing resumes at the first key above the cursor and returns at most n records, each in normal form
pub open spec fn page_ok(p: Map<Seq<u8>, PairInfoRaw>, lo: Option<Seq<u8>>, n: nat, out: Seq<PairInfo>) -> bool {
    let all = sorted_keys(p);
    exists|s: int| #![trigger split_at(all, lo, s)] split_at(all, lo, s) && out.len() == page_len(all.len() as int, s, n)
        && (forall|i: int| 0 <= i < out.len() ==> normal_of(p[all[s + i]], #[trigger] out[i]))
}

//%fn contracts/halo-factory/src/state.rs | - | calc_range_start
//%%rewrite #1 /start_after\.map\(\|asset_infos\| ((?s:.*))\)(\s*\}\s*)$/ => vmap_owned(start_after, |asset_infos: [AssetInfoRaw; 2]| -> (o: Vec<u8>) ensures /*[C19 cursor.closure]*/ o@ == cursor_after(pair_key_spec(asset_infos[0], asset_infos[1])) { let o = \1; proof { assert(o@ =~= cursor_after(pair_key_spec(asset_infos[0], asset_infos[1]))); } o })\2 ## R4: Option::map -> verified helper vmap_owned; the closure keeps its real body
//%%sig
    ensures /*[C19 cursor.is-key-plus-one]*/ (r is Some <==> start_after is Some) && (r is Some ==> Some(r->Some_0@) == cursor_bound(start_after)),
//%end

//%fn contracts/halo-factory/src/state.rs | - | read_pairs
//%%rewrite #1 /calc_range_start\(start_after\)\.map\(Bound::ExclusiveRaw\)/ => vmap_owned(calc_range_start(start_after), |v: Vec<u8>| -> (b: Bound) ensures b == Bound::ExclusiveRaw(v) { Bound::ExclusiveRaw(v) }) ## R4: Option::map(constructor) -> verified helper with the constructor applied in a closure
//%%rewrite #1 /PAIRS\s*\.range\(storage, (\w+), None, Order::Ascending\)\s*\.take\((\w+)\)\s*\.map\(\|item\| ((?s:.*?))\)\s*\.collect::<StdResult<Vec<PairInfo>>>\(\)/ => { let items = PAIRS.range_from(storage, \1); let ghost items0 = items@; let page = vtake(items, \2); let ghost page0 = page@; let out = vtry_map_all(page, |item: StdResult<(Vec<u8>, PairInfoRaw)>| -> (o: StdResult<PairInfo>) ensures /*[C19 page.maps-each-record]*/ o is Ok ==> item is Ok && normal_of(item->Ok_0.1, o->Ok_0) \3); proof { if out is Ok { let all = sorted_keys(storage.pairs@); let lo = cursor_bound(start_after); let s = choose|s: int| #![trigger split_at(all, lo, s)] split_at(all, lo, s) && items0.len() == all.len() - s && (forall|i: int| 0 <= i < items0.len() ==> (#[trigger] items0[i]) is Ok && items0[i]->Ok_0.0@ == all[s + i] && items0[i]->Ok_0.1 == storage.pairs@[all[s + i]]); assert(split_at(all, lo, s)); assert forall|i: int| 0 <= i < out->Ok_0@.len() implies normal_of(storage.pairs@[all[s + i]], #[trigger] out->Ok_0@[i]) by { assert(page0[i] == items0[i]); } } } out } ## R4: Map::range(start, None, Ascending).take(n).map(f).collect::<StdResult<_>>() -> assumed ordered listing `range_from` + verified helpers vtake / vtry_map_all; the closure keeps its real body
//%%sig
    ensures
        /*[C19 page.size-cap]*/ r is Ok ==> r->Ok_0@.len() <= 30 && (limit is None ==> r->Ok_0@.len() <= 10) && r->Ok_0@.len() <= page_limit(limit),
        /*[C19 page.resumes-after-cursor]*/ r is Ok ==> page_ok(storage.pairs@, cursor_bound(start_after), page_limit(limit), r->Ok_0@),
//%end

// ---- contracts/halo-factory/src/contract.rs : the Pairs{start_after, limit} query ----
//%item packages/haloswap/src/factory.rs struct PairsResponse
pub open spec fn cursor_of(r0: AssetInfoRaw, r1: AssetInfoRaw) -> Option<Seq<u8>> { Some(cursor_after(pair_key_spec(r0, r1))) }
//%fn contracts/halo-factory/src/contract.rs | - | query_pairs
//%%sig
    ensures
        /*[C19 pairs.size-cap]*/ r is Ok ==> r->Ok_0.pairs@.len() <= 30 && (limit is None ==> r->Ok_0.pairs@.len() <= 10),
        /*[C19 pairs.first-page]*/ r is Ok && start_after is None ==> page_ok(deps.storage.pairs@, None, page_limit(limit), r->Ok_0.pairs@),
        /*[C19 pairs.resumes-after-cursor]*/ r is Ok && start_after is Some ==> exists|r0: AssetInfoRaw, r1: AssetInfoRaw| #![trigger raw_of(start_after->Some_0[0], r0), raw_of(start_after->Some_0[1], r1)]
            raw_of(start_after->Some_0[0], r0) && raw_of(start_after->Some_0[1], r1) && page_ok(deps.storage.pairs@, cursor_of(r0, r1), page_limit(limit), r->Ok_0.pairs@),
//%end

// two raw forms of the same asset have the same identifier, hence the same key
pub proof fn lemma_raw_same_id(i: AssetInfo, a: AssetInfoRaw, b: AssetInfoRaw)
    requires raw_of(i, a), raw_of(i, b)
    ensures same_id(a, b)
{
}
pub proof fn lemma_key_same_id(a: AssetInfoRaw, b: AssetInfoRaw, c: AssetInfoRaw, d: AssetInfoRaw)
    requires same_id(a, c), same_id(b, d)
    ensures pair_key_spec(a, b) == pair_key_spec(c, d)
{
}
// the cursor built from the LAST pair of a page is the key that pair is stored under
pub proof fn lemma_cursor_of_last(p: Map<Seq<u8>, PairInfoRaw>, k: Seq<u8>, last: PairInfo, r0: AssetInfoRaw, r1: AssetInfoRaw)
    requires registry_wf(p), p.dom().contains(k), normal_of(p[k], last), raw_of(last.asset_infos[0], r0), raw_of(last.asset_infos[1], r1)
    ensures /*[C19 walk.cursor-is-stored-key]*/ pair_key_spec(r0, r1) == k
{
    lemma_raw_same_id(last.asset_infos[0], r0, p[k].asset_infos[0]);
    lemma_raw_same_id(last.asset_infos[1], r1, p[k].asset_infos[1]);
    lemma_key_same_id(r0, r1, p[k].asset_infos[0], p[k].asset_infos[1]);
}
// C19, first page: the listing starts at the first registered key
pub proof fn lemma_c19_first_page(p: Map<Seq<u8>, PairInfoRaw>, n: nat, out: Seq<PairInfo>)
    requires page_ok(p, None, n, out)
    ensures /*[C19 walk.first-page]*/ ({ let all = sorted_keys(p); out.len() == page_len(all.len() as int, 0, n) && forall|t: int| 0 <= t < out.len() ==> normal_of(p[all[t]], #[trigger] out[t]) })
{
    let all = sorted_keys(p);
    let s = choose|s: int| #![trigger split_at(all, None, s)] split_at(all, None, s) && out.len() == page_len(all.len() as int, s, n) && (forall|i: int| 0 <= i < out.len() ==> normal_of(p[all[s + i]], #[trigger] out[i]));
    assert(split_at(all, None, 0));
    lemma_split_unique(all, None, s, 0);
}
// C19, next page: continuing after the last pair returned (the i-th of the listing, 1-based) yields the records i, i+1, ... in order
pub proof fn lemma_c19_next_page(p: Map<Seq<u8>, PairInfoRaw>, i: int, last: PairInfo, r0: AssetInfoRaw, r1: AssetInfoRaw, n: nat, out: Seq<PairInfo>)
    requires p.dom().finite(), registry_wf(p), no_ext01(sorted_keys(p)), 0 < i <= sorted_keys(p).len(), normal_of(p[sorted_keys(p)[i - 1]], last),
        raw_of(last.asset_infos[0], r0), raw_of(last.asset_infos[1], r1), page_ok(p, cursor_of(r0, r1), n, out)
    ensures /*[C19 walk.next-page]*/ ({ let all = sorted_keys(p); out.len() == page_len(all.len() as int, i, n) && forall|t: int| 0 <= t < out.len() ==> normal_of(p[all[i + t]], #[trigger] out[t]) })
{
    broadcast use axiom_sorted_keys;
    let all = sorted_keys(p);
    let lo = cursor_of(r0, r1);
    assert(all.contains(all[i - 1]));
    lemma_cursor_of_last(p, all[i - 1], last, r0, r1);
    lemma_no_gap(all);
    lemma_cursor_split(all, i);
    let s = choose|s: int| #![trigger split_at(all, lo, s)] split_at(all, lo, s) && out.len() == page_len(all.len() as int, s, n) && (forall|t: int| 0 <= t < out.len() ==> normal_of(p[all[s + t]], #[trigger] out[t]));
    lemma_split_unique(all, lo, s, i);
}
// ---- the key-level hypothesis no_ext01 follows from an identifier-level one ----
// a native denom has no byte <= 0x01 (bank denoms are [a-zA-Z][a-zA-Z0-9/:._-]{2,127}); canonical token addresses registered here have one common length
pub open spec fn id_clean(a: AssetInfoRaw) -> bool { raw_native(a) ==> forall|i: int| 0 <= i < raw_bytes(a).len() ==> raw_bytes(a)[i] > 1 }
pub open spec fn ids_clean(p: Map<Seq<u8>, PairInfoRaw>, addr_len: nat) -> bool {
    forall|k: Seq<u8>| #[trigger] p.dom().contains(k) ==> ({ let r = p[k];
        id_clean(r.asset_infos[0]) && id_clean(r.asset_infos[1]) && raw_bytes(r.asset_infos[0]).len() <= u64::MAX && raw_bytes(r.asset_infos[1]).len() <= u64::MAX
        && (!raw_native(r.asset_infos[0]) ==> raw_bytes(r.asset_infos[0]).len() == addr_len) && (!raw_native(r.asset_infos[1]) ==> raw_bytes(r.asset_infos[1]).len() == addr_len) })
}
pub proof fn lemma_key_of_no_ext01(l1: AssetInfoRaw, h1: AssetInfoRaw, l2: AssetInfoRaw, h2: AssetInfoRaw, addr_len: nat)
    requires raw_bytes(l1).len() <= u64::MAX, raw_bytes(l2).len() <= u64::MAX, id_clean(h2),
        !raw_native(h1) ==> raw_bytes(h1).len() == addr_len, !raw_native(h2) ==> raw_bytes(h2).len() == addr_len,
    ensures !ext01(key_of(l1, h1), key_of(l2, h2))
{
    broadcast use axiom_be8;
    let k1 = key_of(l1, h1); let k2 = key_of(l2, h2);
    let n1 = raw_bytes(l1).len(); let n2 = raw_bytes(l2).len();
    if ext01(k1, k2) {
        let pre = k2.subrange(0, k1.len() as int);
        assert(pre == k1);
        assert(k1[0] == tag_of(l1) && k2[0] == tag_of(l2) && pre[0] == k2[0]);
        assert(k1.subrange(1, 9) =~= be8(n1 as u64));
        assert(k2.subrange(1, 9) =~= be8(n2 as u64));
        assert(pre.subrange(1, 9) =~= k2.subrange(1, 9));
        assert(n1 as u64 == n2 as u64);
        assert(n1 == n2);
        assert(k1[9 + n1 as int] == tag_of(h1) && k2[9 + n2 as int] == tag_of(h2) && pre[9 + n1 as int] == k2[9 + n1 as int]);
        assert(tag_of(h1) == tag_of(h2));
        let m1 = raw_bytes(h1).len(); let m2 = raw_bytes(h2).len();
        assert(k1.len() == 10 + n1 + m1 && k2.len() == 10 + n2 + m2);
        assert(m2 > m1);
        // the byte that continues k1 is byte m1 of the second identifier of k2
        assert(k2[k1.len() as int] == raw_bytes(h2)[m1 as int]);
        if raw_native(h2) { assert(raw_bytes(h2)[m1 as int] > 1); } else { assert(m1 == addr_len && m2 == addr_len); }
    }
}
pub proof fn lemma_no_ext01_from_ids(p: Map<Seq<u8>, PairInfoRaw>, addr_len: nat)
    requires p.dom().finite(), registry_wf(p), ids_clean(p, addr_len)
    ensures /*[C19 walk.clean-identifiers-give-no-ext01]*/ no_ext01(sorted_keys(p))
{
    broadcast use axiom_sorted_keys;
    let all = sorted_keys(p);
    assert forall|i: int, j: int| 0 <= i < all.len() && 0 <= j < all.len() implies !ext01(#[trigger] all[i], #[trigger] all[j]) by {
        assert(all.contains(all[i]) && all.contains(all[j]));
        let a = p[all[i]]; let b = p[all[j]];
        let (l1, h1) = if key_order(a.asset_infos[1], a.asset_infos[0]) is Less { (a.asset_infos[1], a.asset_infos[0]) } else { (a.asset_infos[0], a.asset_infos[1]) };
        let (l2, h2) = if key_order(b.asset_infos[1], b.asset_infos[0]) is Less { (b.asset_infos[1], b.asset_infos[0]) } else { (b.asset_infos[0], b.asset_infos[1]) };
        lemma_key_of_no_ext01(l1, h1, l2, h2, addr_len);
    }
}

// ---- C19 as one statement: a walk is a sequence of pages, the first from the beginning, each next one continuing after the LAST pair of the
// previous (non-empty) page, ending with the first empty page.  Every page is what the Pairs query answers (page_ok, proved for query_pairs). ----
pub open spec fn walk_ok(p: Map<Seq<u8>, PairInfoRaw>, n: nat, pages: Seq<Seq<PairInfo>>) -> bool {
    pages.len() >= 1 && page_ok(p, None, n, pages[0]) && pages.last().len() == 0
    && (forall|k: int| 0 <= k < pages.len() - 1 ==> (#[trigger] pages[k]).len() > 0
        && exists|r0: AssetInfoRaw, r1: AssetInfoRaw| #![trigger raw_of(pages[k].last().asset_infos[0], r0), raw_of(pages[k].last().asset_infos[1], r1)]
            raw_of(pages[k].last().asset_infos[0], r0) && raw_of(pages[k].last().asset_infos[1], r1) && page_ok(p, cursor_of(r0, r1), n, pages[k + 1]))
}
// number of pairs returned by the pages before page k
pub open spec fn visited_before(pages: Seq<Seq<PairInfo>>, k: int) -> int decreases k { if k <= 0 { 0 } else { visited_before(pages, k - 1) + pages[k - 1].len() } }
pub proof fn lemma_c19_walk_prefix(p: Map<Seq<u8>, PairInfoRaw>, n: nat, pages: Seq<Seq<PairInfo>>, k: int)
    requires p.dom().finite(), registry_wf(p), no_ext01(sorted_keys(p)), walk_ok(p, n, pages), 0 <= k < pages.len()
    ensures ({ let all = sorted_keys(p); let o = visited_before(pages, k);
        0 <= o <= all.len() && pages[k].len() == page_len(all.len() as int, o, n) && forall|t: int| 0 <= t < pages[k].len() ==> normal_of(p[all[o + t]], #[trigger] pages[k][t]) })
    decreases k
{
    let all = sorted_keys(p);
    if k == 0 {
        lemma_c19_first_page(p, n, pages[0]);
    } else {
        lemma_c19_walk_prefix(p, n, pages, k - 1);
        let o1 = visited_before(pages, k - 1);
        let prev = pages[k - 1];
        let i = o1 + prev.len();
        assert(prev.len() > 0);
        assert(visited_before(pages, k) == i);
        let last = prev.last();
        assert(last == prev[prev.len() - 1]);
        assert(normal_of(p[all[o1 + (prev.len() - 1)]], last));
        let (r0, r1) = choose|r0: AssetInfoRaw, r1: AssetInfoRaw| #![trigger raw_of(pages[k - 1].last().asset_infos[0], r0), raw_of(pages[k - 1].last().asset_infos[1], r1)]
            raw_of(pages[k - 1].last().asset_infos[0], r0) && raw_of(pages[k - 1].last().asset_infos[1], r1) && page_ok(p, cursor_of(r0, r1), n, pages[k - 1 + 1]);
        lemma_c19_next_page(p, i, last, r0, r1, n, pages[k]);
    }
}
// C19: the walk visits every registered pair exactly once, in ascending key order, and then ends
pub proof fn lemma_c19_walk(p: Map<Seq<u8>, PairInfoRaw>, n: nat, pages: Seq<Seq<PairInfo>>, addr_len: nat)
    requires p.dom().finite(), registry_wf(p), ids_clean(p, addr_len), n >= 1, walk_ok(p, n, pages)
    ensures /*[C19 walk.complete-and-duplicate-free]*/ ({ let all = sorted_keys(p);
        all.no_duplicates() && (forall|key: Seq<u8>| p.dom().contains(key) <==> all.contains(key))
        && visited_before(pages, pages.len() - 1) == all.len()
        && (forall|k: int, t: int| 0 <= k < pages.len() && 0 <= t < pages[k].len() ==> 0 <= visited_before(pages, k) + t < all.len() && normal_of(p[all[visited_before(pages, k) + t]], #[trigger] pages[k][t])) })
{
    broadcast use axiom_sorted_keys;
    let all = sorted_keys(p);
    lemma_sorted_no_dup(all);
    lemma_no_ext01_from_ids(p, addr_len);
    let last = pages.len() - 1;
    lemma_c19_walk_prefix(p, n, pages, last);
    assert forall|k: int, t: int| 0 <= k < pages.len() && 0 <= t < pages[k].len() implies 0 <= visited_before(pages, k) + t < all.len() && normal_of(p[all[visited_before(pages, k) + t]], #[trigger] pages[k][t]) by {
        lemma_c19_walk_prefix(p, n, pages, k);
    }
}
