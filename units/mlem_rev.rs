// ===== lemma library for compute_offer_amount (C12 reverse simulation) =====
pub open spec fn ro_inv(cr: nat) -> nat { dd() * dd() / ((dd() - cr) as nat) }
pub open spec fn ro_b(k: nat, cr: nat) -> nat { k * ro_inv(cr) / dd() }
pub open spec fn ro_offer(x: nat, y: nat, k: nat, cr: nat) -> nat { ((x * y) / ((y - ro_b(k, cr)) as nat) - x) as nat }
// result pinned to the spec function; abort-freedom facts that every returning call satisfies
pub open spec fn rev_pinned(x: nat, y: nat, k: nat, cr: nat, o: nat) -> bool {
    cr < dd() && ro_b(k, cr) < y && (x * y) / ((y - ro_b(k, cr)) as nat) >= x && o == ro_offer(x, y, k, cr)
}
// C12: never above the closed form x*y/(y - k/(1-c)) - x  (cross-multiplied by (1-c) and the positive denominator)
pub open spec fn c12_not_above(x: nat, y: nat, k: nat, cr: nat, o: nat) -> bool {
    cr < dd() && y * (dd() - cr) > k * dd() ==> (o + x) * (y * (dd() - cr) - k * dd()) <= (x * y) * (dd() - cr)
}
// C12: below it only by the rounding of the two floors: b > k/(1-c) - k/D - 1 and o + x + 1 > x*y/(y-b)
pub open spec fn c12_rounding_bound(x: nat, y: nat, k: nat, cr: nat, o: nat) -> bool {
    cr < dd() ==> ({ let b = ro_b(k, cr);
        b * dd() * (dd() - cr) + k * (dd() - cr) + dd() * (dd() - cr) > k * dd() * dd()
        && (b < y ==> (o + x + 1) * (y - b) > x * y) })
}
pub proof fn lemma_rev_props(x: nat, y: nat, k: nat, cr: nat)
    requires cr < dd(), ro_b(k, cr) < y, (x * y) / ((y - ro_b(k, cr)) as nat) >= x
    ensures c12_not_above(x, y, k, cr, ro_offer(x, y, k, cr)), c12_rounding_bound(x, y, k, cr, ro_offer(x, y, k, cr)),
        ro_b(k, cr) * (dd() - cr) <= k * dd(),
{
    let d = dd(); let e = (d - cr) as nat; let inv = ro_inv(cr); let b = ro_b(k, cr); let cp = x * y; let w = (y - b) as nat;
    let t = cp / w; let o = ro_offer(x, y, k, cr);
    lemma_fundamental_div_mod((d * d) as int, e as int); lemma_mod_bound((d * d) as int, e as int);
    lemma_fundamental_div_mod((k * inv) as int, d as int); lemma_mod_bound((k * inv) as int, d as int);
    lemma_fundamental_div_mod(cp as int, w as int); lemma_mod_bound(cp as int, w as int);
    assert(e * inv <= d * d && d * d < e * inv + e);
    assert(d * b <= k * inv && k * inv < d * b + d);
    assert(w * t <= cp && cp < w * t + w);
    // b*e <= k*d
    assert(d * b * e <= k * inv * e) by(nonlinear_arith) requires d * b <= k * inv;
    assert(k * inv * e <= k * (d * d)) by(nonlinear_arith) requires e * inv <= d * d;
    assert(d * (b * e) <= d * (k * d)) by(nonlinear_arith) requires d * b * e <= k * inv * e, k * inv * e <= k * (d * d);
    assert(b * e <= k * d) by(nonlinear_arith) requires d * (b * e) <= d * (k * d), d > 0;
    assert(o + x == t);
    if y * e > k * d {
        assert(w * e == y * e - b * e) by(nonlinear_arith) requires w == y - b;
        assert(t * (y * e - k * d) <= t * (w * e)) by(nonlinear_arith) requires y * e - k * d <= w * e, y * e > k * d;
        assert(t * (w * e) == (w * t) * e) by(nonlinear_arith);
        assert((w * t) * e <= cp * e) by(nonlinear_arith) requires w * t <= cp;
    }
    // rounding bound on b:  b*d*e + k*e + d*e > k*d*d
    assert((d * b + d) * e > k * inv * e) by(nonlinear_arith) requires k * inv < d * b + d, e > 0;
    assert(k * (e * inv + e) > k * (d * d) || k == 0) by(nonlinear_arith) requires d * d < e * inv + e;
    assert(k * (e * inv + e) == k * inv * e + k * e) by(nonlinear_arith);
    assert((d * b + d) * e == b * d * e + d * e) by(nonlinear_arith);
    assert(k * (d * d) == k * d * d) by(nonlinear_arith);
    assert(d * e > 0) by(nonlinear_arith) requires d > 0, e > 0;
    assert((t + 1) * w == w * t + w) by(nonlinear_arith);
}
