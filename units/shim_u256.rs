// ===== ASSUMED contracts for the dependency bigint::U256 (v4.4.3) =====
// mode B ("if it returns"): panicking primitives have no precondition; their postcondition carries
// the no-panic condition.  mode A ("does not abort"): the same condition is a precondition.
#[derive(Copy, Clone)]
pub struct U256(pub [u64; 4]);
impl U256 {
    #[verifier::opaque]
    pub open spec fn v(&self) -> nat {
        self.0[0] as nat + (self.0[1] as nat) * p64() + (self.0[2] as nat) * p64() * p64()
            + (self.0[3] as nat) * p64() * p64() * p64()
    }
    #[verifier::external_body]
    pub fn is_zero(&self) -> (r: bool) ensures r == (self.v() == 0) { unimplemented!() }
}
pub broadcast proof fn axiom_u256_bound(x: U256) ensures #[trigger] x.v() < p256() {
    reveal(U256::v);
    assert(x.0[0] < p64() && x.0[1] < p64() && x.0[2] < p64() && x.0[3] < p64());
    assert(p64() * p64() * p64() * p64() == p256()) by(compute);
    assert((x.0[1] as nat) * p64() <= (p64() - 1) * p64()) by(nonlinear_arith) requires x.0[1] < p64();
    assert((x.0[2] as nat) * p64() * p64() <= (p64() - 1) * p64() * p64()) by(nonlinear_arith) requires x.0[2] < p64();
    assert((x.0[3] as nat) * p64() * p64() * p64() <= (p64() - 1) * p64() * p64() * p64()) by(nonlinear_arith) requires x.0[3] < p64();
    assert((p64() - 1) + (p64() - 1) * p64() + (p64() - 1) * p64() * p64() + (p64() - 1) * p64() * p64() * p64() < p256()) by(compute);
}
impl PartialEq for U256 { #[verifier::external_body] fn eq(&self, o: &U256) -> (r: bool) { unimplemented!() } }
impl PartialEqSpecImpl for U256 {
    open spec fn obeys_eq_spec() -> bool { true }
    open spec fn eq_spec(&self, o: &U256) -> bool { self.v() == o.v() }
}
impl PartialOrd for U256 { #[verifier::external_body] fn partial_cmp(&self, o: &U256) -> (r: Option<Ordering>) { unimplemented!() } }
impl PartialOrdSpecImpl for U256 {
    open spec fn obeys_partial_cmp_spec() -> bool { true }
    open spec fn partial_cmp_spec(&self, o: &U256) -> Option<Ordering> {
        if self.v() < o.v() { Some(Ordering::Less) } else if self.v() == o.v() { Some(Ordering::Equal) } else { Some(Ordering::Greater) }
    }
}
impl From<u64> for U256 { #[verifier::external_body] fn from(x: u64) -> (r: U256) ensures r.v() == x as nat { unimplemented!() } }
impl FromSpecImpl<u64> for U256 {
    open spec fn obeys_from_spec() -> bool { false }
    open spec fn from_spec(x: u64) -> U256 { arbitrary() }
}
impl ops::Add for U256 { type Output = U256;
    #[verifier::external_body]
    fn add(self, rhs: U256) -> (r: U256)
//%if A
        ensures r.v() == self.v() + rhs.v()
//%else
        ensures self.v() + rhs.v() < p256(), r.v() == self.v() + rhs.v()
//%endif
    { unimplemented!() } }
impl AddSpecImpl for U256 {
    open spec fn obeys_add_spec() -> bool { false }
//%if A
    open spec fn add_req(self, rhs: U256) -> bool { self.v() + rhs.v() < p256() }
//%else
    open spec fn add_req(self, rhs: U256) -> bool { true }
//%endif
    open spec fn add_spec(self, rhs: U256) -> U256 { arbitrary() }
}
impl ops::Sub for U256 { type Output = U256;
    #[verifier::external_body]
    fn sub(self, rhs: U256) -> (r: U256)
//%if A
        ensures r.v() == self.v() - rhs.v()
//%else
        ensures self.v() >= rhs.v(), r.v() == self.v() - rhs.v()
//%endif
    { unimplemented!() } }
impl SubSpecImpl for U256 {
    open spec fn obeys_sub_spec() -> bool { false }
//%if A
    open spec fn sub_req(self, rhs: U256) -> bool { self.v() >= rhs.v() }
//%else
    open spec fn sub_req(self, rhs: U256) -> bool { true }
//%endif
    open spec fn sub_spec(self, rhs: U256) -> U256 { arbitrary() }
}
impl ops::Mul for U256 { type Output = U256;
    #[verifier::external_body]
    fn mul(self, rhs: U256) -> (r: U256)
//%if A
        ensures r.v() == self.v() * rhs.v()
//%else
        ensures self.v() * rhs.v() < p256(), r.v() == self.v() * rhs.v()
//%endif
    { unimplemented!() } }
impl MulSpecImpl for U256 {
    open spec fn obeys_mul_spec() -> bool { false }
//%if A
    open spec fn mul_req(self, rhs: U256) -> bool { self.v() * rhs.v() < p256() }
//%else
    open spec fn mul_req(self, rhs: U256) -> bool { true }
//%endif
    open spec fn mul_spec(self, rhs: U256) -> U256 { arbitrary() }
}
impl ops::Div for U256 { type Output = U256;
    #[verifier::external_body]
    fn div(self, rhs: U256) -> (r: U256)
//%if A
        ensures r.v() == self.v() / rhs.v()
//%else
        ensures rhs.v() != 0, r.v() == self.v() / rhs.v()
//%endif
    { unimplemented!() } }
impl DivSpecImpl for U256 {
    open spec fn obeys_div_spec() -> bool { false }
//%if A
    open spec fn div_req(self, rhs: U256) -> bool { rhs.v() != 0 }
//%else
    open spec fn div_req(self, rhs: U256) -> bool { true }
//%endif
    open spec fn div_spec(self, rhs: U256) -> U256 { arbitrary() }
}
// non-aborting primitives of bigint::U256 (wrap modulo 2^256 and report the overflow)
impl U256 {
    #[verifier::external_body] pub fn overflowing_add(self, rhs: U256) -> (r: (U256, bool))
        ensures r.1 == (self.v() + rhs.v() >= p256()), r.0.v() == (self.v() + rhs.v()) % p256() { unimplemented!() }
    #[verifier::external_body] pub fn overflowing_sub(self, rhs: U256) -> (r: (U256, bool))
        ensures r.1 == (self.v() < rhs.v()), r.0.v() == (if self.v() >= rhs.v() { (self.v() - rhs.v()) as nat } else { (p256() + self.v() - rhs.v()) as nat }) { unimplemented!() }
    #[verifier::external_body] pub fn saturating_mul(self, rhs: U256) -> (r: U256)
        ensures r.v() == (if self.v() * rhs.v() < p256() { self.v() * rhs.v() } else { (p256() - 1) as nat }) { unimplemented!() }
    #[verifier::external_body] pub fn saturating_add(self, rhs: U256) -> (r: U256)
        ensures r.v() == (if self.v() + rhs.v() < p256() { self.v() + rhs.v() } else { (p256() - 1) as nat }) { unimplemented!() }
    #[verifier::external_body] pub fn saturating_sub(self, rhs: U256) -> (r: U256)
        ensures r.v() == (if self.v() >= rhs.v() { (self.v() - rhs.v()) as nat } else { 0nat }) { unimplemented!() }
    #[verifier::external_body] pub fn overflowing_mul(self, rhs: U256) -> (r: (U256, bool))
        ensures r.1 == (self.v() * rhs.v() >= p256()), r.0.v() == (self.v() * rhs.v()) % p256() { unimplemented!() }
    #[verifier::external_body] pub fn zero() -> (r: U256) ensures r.v() == 0 { unimplemented!() }
    #[verifier::external_body] pub fn one() -> (r: U256) ensures r.v() == 1 { unimplemented!() }
    #[verifier::external_body] pub fn max_value() -> (r: U256) ensures r.v() == p256() - 1 { unimplemented!() }
    #[verifier::external_body] pub fn low_u64(&self) -> (r: u64) ensures r as nat == self.v() % p64() { unimplemented!() }
}
impl ops::Rem for U256 { type Output = U256;
    #[verifier::external_body]
    fn rem(self, rhs: U256) -> (r: U256)
//%if A
        ensures r.v() == self.v() % rhs.v()
//%else
        ensures rhs.v() != 0, r.v() == self.v() % rhs.v()
//%endif
    { unimplemented!() } }
impl RemSpecImpl for U256 {
    open spec fn obeys_rem_spec() -> bool { false }
//%if A
    open spec fn rem_req(self, rhs: U256) -> bool { rhs.v() != 0 }
//%else
    open spec fn rem_req(self, rhs: U256) -> bool { true }
//%endif
    open spec fn rem_spec(self, rhs: U256) -> U256 { arbitrary() }
}
// Rust's abort primitives
//%if A
pub fn rt_assert(c: bool) requires c { }
pub fn rt_panic() requires false { }
//%else
#[verifier::external_body] pub fn rt_assert(c: bool) ensures c { unimplemented!() }
#[verifier::external_body] pub fn rt_panic() ensures false { unimplemented!() }
//%endif
// reflexive T: Into<T> (std blanket impl `impl<T> From<T> for T`) -- assumed
pub broadcast proof fn axiom_u256_into_self(x: U256) ensures #[trigger] IntoSpec::<U256>::into_spec(x) == x { admit(); }
#[verifier::allow(broadcast_without_trigger)]
pub broadcast proof fn axiom_u256_into_obeys() ensures <U256 as IntoSpec<U256>>::obeys_into_spec() { admit(); }
