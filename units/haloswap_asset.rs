// ===== packages/haloswap/src/asset.rs (types and function text extracted from /repo) =====
//%item packages/haloswap/src/asset.rs const LP_TOKEN_RESERVED_AMOUNT
//%item packages/haloswap/src/asset.rs struct Asset
//%item packages/haloswap/src/asset.rs enum AssetInfo
//%item packages/haloswap/src/asset.rs struct CreatePairRequirements
//%item packages/haloswap/src/asset.rs enum AssetInfoRaw
//%item packages/haloswap/src/asset.rs struct PairInfo
//%item packages/haloswap/src/asset.rs struct PairInfoRaw
// #[cw_serde] derives Clone / PartialEq: ASSUMED structural
impl Clone for Asset { #[verifier::external_body] fn clone(&self) -> (r: Asset) ensures r == *self { unimplemented!() } }
impl Clone for AssetInfo { #[verifier::external_body] fn clone(&self) -> (r: AssetInfo) ensures r == *self { unimplemented!() } }
impl Clone for AssetInfoRaw { #[verifier::external_body] fn clone(&self) -> (r: AssetInfoRaw) ensures r == *self { unimplemented!() } }
impl Clone for CreatePairRequirements { #[verifier::external_body] fn clone(&self) -> (r: CreatePairRequirements) ensures r == *self { unimplemented!() } }
impl Clone for PairInfoRaw { #[verifier::external_body] fn clone(&self) -> (r: PairInfoRaw) ensures r == *self { unimplemented!() } }
impl AssetInfo {
    // the text an asset is displayed as: the denom / the contract address, whole and unchanged (route-shape keys in the router are these texts)
    pub open spec fn label(&self) -> Seq<char> { match self { AssetInfo::Token { contract_addr } => contract_addr@, AssetInfo::NativeToken { denom } => denom@ } }
//%fn packages/haloswap/src/asset.rs | impl fmt::Display for AssetInfo | fmt
//%%rewrite #2 /write!\(f, ("[^"]*"), (\w+)\)/ => f.write_display(\1, \2) ## write!(f, SPEC, x) with one String argument -> Formatter::write_display(SPEC, x): only the plain spec "{}" is modelled (writes x), the spec text is carried over verbatim
//%%rewrite #1 /fn fmt\(/ => pub fn fmt( ## the Display impl is lifted to an inherent method (Formatter is a shim type)
//%%sig
    ensures
//%if A
        r is Ok,
//%endif
        /*[C13 asset.display]*/ r is Ok ==> final(f).out@ == old(f).out@ + self.label(),
//%end
    // stands for std's blanket ToString impl over the Display impl above (VERIFIED against fmt's contract)
    pub fn to_string(&self) -> (r: String)
        ensures /*[C13 asset.to-string]*/ r@ == self.label()
    {
        let mut f = fmt::Formatter::new_buffer();
        let res = self.fmt(&mut f);
        f.finish(res)
    }
    pub open spec fn same(&self, o: &AssetInfo) -> bool {
        match (self, o) {
            (AssetInfo::Token { contract_addr: a }, AssetInfo::Token { contract_addr: b }) => a@ == b@,
            (AssetInfo::NativeToken { denom: a }, AssetInfo::NativeToken { denom: b }) => a@ == b@,
            _ => false,
        }
    }
}
impl PartialEq for AssetInfo { #[verifier::external_body] fn eq(&self, o: &AssetInfo) -> (r: bool) { unimplemented!() } }
impl PartialEqSpecImpl for AssetInfo {
    open spec fn obeys_eq_spec() -> bool { true }
    open spec fn eq_spec(&self, o: &AssetInfo) -> bool { self.same(o) }
}
pub open spec fn raw_same(a: AssetInfoRaw, b: AssetInfoRaw) -> bool {
    match (a, b) {
        (AssetInfoRaw::NativeToken { denom: x }, AssetInfoRaw::NativeToken { denom: y }) => x@ == y@,
        (AssetInfoRaw::Token { contract_addr: x }, AssetInfoRaw::Token { contract_addr: y }) => x.0@ == y.0@,
        _ => false,
    }
}
// derived PartialEq of AssetInfoRaw (cw_serde): same variant and equal payload
impl PartialEq for AssetInfoRaw { #[verifier::external_body] fn eq(&self, o: &AssetInfoRaw) -> (r: bool) { unimplemented!() } }
impl PartialEqSpecImpl for AssetInfoRaw {
    open spec fn obeys_eq_spec() -> bool { true }
    open spec fn eq_spec(&self, o: &AssetInfoRaw) -> bool {
        match (*self, *o) {
            (AssetInfoRaw::NativeToken { denom: a }, AssetInfoRaw::NativeToken { denom: b }) => a@ == b@,
            (AssetInfoRaw::Token { contract_addr: a }, AssetInfoRaw::Token { contract_addr: b }) => a.0@ == b.0@,
            _ => false,
        }
    }
}
// amount of the FIRST coin of denom d among the attached funds, 0 when absent
pub open spec fn attached(funds: Seq<Coin>, d: Seq<char>) -> nat decreases funds.len() {
    if funds.len() == 0 { 0 } else if funds[0].denom@ == d { funds[0].amount.0 as nat } else { attached(funds.drop_first(), d) }
}
pub proof fn lemma_attached_first(funds: Seq<Coin>, d: Seq<char>, i: int)
    requires 0 <= i < funds.len(), funds[i].denom@ == d, forall|j: int| 0 <= j < i ==> funds[j].denom@ != d
    ensures attached(funds, d) == funds[i].amount.0 as nat
    decreases i
{
    if i > 0 { lemma_attached_first(funds.drop_first(), d, i - 1); }
}
pub proof fn lemma_attached_none(funds: Seq<Coin>, d: Seq<char>)
    requires forall|j: int| 0 <= j < funds.len() ==> funds[j].denom@ != d
    ensures attached(funds, d) == 0
    decreases funds.len()
{
    if funds.len() > 0 { lemma_attached_none(funds.drop_first(), d); }
}
// the transfer message that pays `amount` of `info` to `recipient` out of the sender's own balance
pub open spec fn pay_msg(info: AssetInfo, amount: Uint128, recipient: Seq<char>, m: CosmosMsg) -> bool {
    match info {
        AssetInfo::Token { contract_addr } => m matches CosmosMsg::Wasm(WasmMsg::Execute { contract_addr: c, msg, funds })
            && c@ == contract_addr@ && funds@.len() == 0
            && exists|rcp: String| rcp@ == recipient && msg == bin_of(Cw20ExecuteMsg::Transfer { recipient: rcp, amount }),
        AssetInfo::NativeToken { denom } => m matches CosmosMsg::Bank(BankMsg::Send { to_address, amount: coins })
            && to_address@ == recipient && coins@.len() == 1 && coins@[0].denom@ == denom@ && coins@[0].amount == amount,
    }
}

impl Asset {
//%fn packages/haloswap/src/asset.rs | impl Asset | new
//%%sig
    ensures r.info == info, r.amount == amount,
//%end
//%fn packages/haloswap/src/asset.rs | impl Asset | is_native_token
//%%sig
    ensures /*[C02,C01,C03,C07,C14 asset.is_native]*/ r == (self.info is NativeToken),
//%end
//%fn packages/haloswap/src/asset.rs | impl Asset | into_msg
//%%sig
    ensures
        /*[C02,C04,C07 asset.into_msg.pay]*/ r is Ok ==> pay_msg(self.info, self.amount, recipient.0@, r->Ok_0),
//%if A
        /*[C20 asset.into_msg.succeeds]*/ r is Ok,
//%endif
//%%head
        broadcast use axiom_to_string_string;
//%end
//%fn packages/haloswap/src/asset.rs | impl Asset | assert_sent_native_token_balance
//%%rewrite #1 /message_info\s*\.funds\s*\.iter\(\)\s*\.find\(\|x\| ((?s:.*?))\)\s*\{/ => vfind(&message_info.funds, |x: &Coin| -> (b: bool) ensures b == (x.denom@ == denom@) { \1 }) { ## R4: iterator find -> verified helper vfind; closure annotated with its own (verified) ensures
//%%sig
    ensures
        /*[C09,C02 sent.token-ok]*/ self.info is Token ==> r is Ok,
        /*[C09,C02,C05,C01,C03 sent.native-iff]*/ self.info matches AssetInfo::NativeToken { denom } ==> ((r is Ok) <==> (self.amount.0 as nat == attached(message_info.funds@, denom@))),
//%%insert after #1 /Some\(coin\) => \{/
                    proof { let i = choose|i: int| 0 <= i < message_info.funds@.len() && coin == &message_info.funds@[i] && message_info.funds@[i].denom@ == denom@ && (forall|j: int| 0 <= j < i ==> message_info.funds@[j].denom@ != denom@); lemma_attached_first(message_info.funds@, denom@, i); }
//%%insert after #1 /None => \{/
                    proof { lemma_attached_none(message_info.funds@, denom@); }
//%end
}

impl AssetInfo {
//%fn packages/haloswap/src/asset.rs | impl AssetInfo | to_raw
//%%sig
    ensures
        r is Ok ==> raw_of(*self, r->Ok_0),
//%%head
        broadcast use axiom_to_string_string;
//%end
//%fn packages/haloswap/src/asset.rs | impl AssetInfo | is_native_token
//%%sig
    ensures /*[C02,C01,C03,C07,C14 assetinfo.is_native]*/ r == (self is NativeToken),
//%end
//%fn packages/haloswap/src/asset.rs | impl AssetInfo | query_pool
//%%sig
    ensures
        /*[C02,C07,C11,C01,C03,C04,C05,C12,C13 assetinfo.query_pool]*/ r is Ok ==> r->Ok_0.0 as nat == balance_of(querier.world(), *self, pool_addr.0@),
//%if A
        /*[C20 assetinfo.query_pool.succeeds]*/ r is Ok,
//%endif
//%%head
        broadcast use axiom_to_string_string;
//%end
//%fn packages/haloswap/src/asset.rs | impl AssetInfo | equal
//%%sig
    ensures /*[C02,C05,C01,C03,C07,C09,C12,C14 assetinfo.equal]*/ r == self.same(asset),
//%%head
        broadcast use {axiom_string_eq_spec, axiom_string_obeys_eq};
//%end
//%fn packages/haloswap/src/asset.rs | impl AssetInfo | query_denom_of_native_token
//%%sig
    ensures
        (r is Ok) == (self is NativeToken),
        self matches AssetInfo::NativeToken { denom } ==> r is Ok && r->Ok_0@ == denom@,
//%%head
        broadcast use axiom_to_string_string;
//%end
}
// balance of `holder` in asset `info`, as the ledger reports it
pub open spec fn balance_of(w: World, info: AssetInfo, holder: Seq<char>) -> nat {
    match info {
        AssetInfo::Token { contract_addr } => w.tok_bal(contract_addr@, holder),
        AssetInfo::NativeToken { denom } => w.bank_bal(holder, denom@),
    }
}
// raw <-> normal correspondence of asset identifiers (canonical address is an uninterpreted function of the text)
pub open spec fn raw_of(n: AssetInfo, raw: AssetInfoRaw) -> bool {
    match (n, raw) {
        (AssetInfo::NativeToken { denom: a }, AssetInfoRaw::NativeToken { denom: b }) => a@ == b@,
        (AssetInfo::Token { contract_addr: a }, AssetInfoRaw::Token { contract_addr: b }) => canon_of(a@) == b.0@,
        _ => false,
    }
}
// the normal form is a function of the raw identifier (humanize is deterministic)
pub open spec fn normal_exact(n: AssetInfo, raw: AssetInfoRaw) -> bool {
    match (n, raw) {
        (AssetInfo::NativeToken { denom: a }, AssetInfoRaw::NativeToken { denom: b }) => a@ == b@,
        (AssetInfo::Token { contract_addr: a }, AssetInfoRaw::Token { contract_addr: b }) => a@ == human_of(b.0@),
        _ => false,
    }
}
impl AssetInfoRaw {
//%fn packages/haloswap/src/asset.rs | impl AssetInfoRaw | to_normal
//%%sig
    ensures
        r is Ok ==> raw_of(r->Ok_0, *self) && normal_exact(r->Ok_0, *self),
//%if A
        /*[C20 raw.to_normal.succeeds]*/ r is Ok,
//%endif
//%%head
        broadcast use axiom_to_string_string;
//%end
//%fn packages/haloswap/src/asset.rs | impl AssetInfoRaw | is_native_token
//%%sig
    ensures r == (self is NativeToken),
//%end
//%fn packages/haloswap/src/asset.rs | impl AssetInfoRaw | equal
//%%sig
    ensures /*[C16,C17 raw.equal]*/ r == raw_same(*self, *asset),
//%%head
        broadcast use {axiom_string_eq_spec, axiom_string_obeys_eq};
//%end
}
impl PairInfoRaw {
//%fn packages/haloswap/src/asset.rs | impl PairInfoRaw | query_pools
//%%sig
    ensures
        /*[C02,C04,C05,C01,C03,C12,C15 pools.query]*/ r is Ok ==> ({ let p = r->Ok_0;
            raw_of(p[0].info, self.asset_infos[0]) && raw_of(p[1].info, self.asset_infos[1])
            && p[0].amount.0 as nat == balance_of(querier.world(), p[0].info, contract_addr.0@)
            && p[1].amount.0 as nat == balance_of(querier.world(), p[1].info, contract_addr.0@)
            && normal_exact(p[0].info, self.asset_infos[0]) && normal_exact(p[1].info, self.asset_infos[1]) }),
//%if A
        /*[C20 pools.query.succeeds]*/ r is Ok,
//%endif
//%end
}
// normal (human readable) form of a registry record
pub open spec fn normal_of(raw: PairInfoRaw, n: PairInfo) -> bool {
    raw_of(n.asset_infos[0], raw.asset_infos[0]) && raw_of(n.asset_infos[1], raw.asset_infos[1])
    && n.contract_addr@ == human_of(raw.contract_addr.0@) && n.liquidity_token@ == human_of(raw.liquidity_token.0@)
    && n.asset_decimals == raw.asset_decimals && n.requirements == raw.requirements && n.commission_rate == raw.commission_rate
}
impl PairInfoRaw {
//%fn packages/haloswap/src/asset.rs | impl PairInfoRaw | to_normal
//%%sig
    ensures /*[C16 record.to_normal]*/ r is Ok ==> normal_of(*self, r->Ok_0),
//%end
}
