// ===== contracts/halo-factory/src/state.rs : cw-storage-plus Item / Map modelled as fields of a storage record (ASSUMED) =====
//%item contracts/halo-factory/src/state.rs struct Config
//%item contracts/halo-factory/src/state.rs struct TmpPairInfo
pub const DEFAULT_COMMISSION_RATE: &'static str = "0.003";
impl Clone for Config { #[verifier::external_body] fn clone(&self) -> (r: Config) ensures r == *self { unimplemented!() } }
pub struct Storage {
    pub config: Option<Config>,
    pub tmp: Option<TmpPairInfo>,
    pub pairs: Ghost<Map<Seq<u8>, PairInfoRaw>>,   // PAIRS: Map<&[u8], PairInfoRaw>
    pub allow: Ghost<Map<Seq<u8>, u8>>,            // ALLOW_NATIVE_TOKENS: Map<&[u8], u8>
}
pub open spec fn range_ok(p: Map<Seq<u8>, PairInfoRaw>, keys: Seq<Seq<u8>>, items: Seq<StdResult<(Vec<u8>, PairInfoRaw)>>) -> bool {
    keys.no_duplicates() && keys.len() == items.len() && (forall|k: Seq<u8>| p.dom().contains(k) <==> keys.contains(k))
    && (forall|i: int| 0 <= i < keys.len() ==> p.dom().contains(#[trigger] keys[i]) && items[i] is Ok && items[i]->Ok_0.0@ == keys[i] && items[i]->Ok_0.1 == p[keys[i]])
}
pub struct ItemConfig { pub dummy: u8 }
pub struct ItemTmp { pub dummy: u8 }
pub struct MapPairs { pub dummy: u8 }
pub struct MapAllow { pub dummy: u8 }
impl ItemConfig {
    #[verifier::external_body] pub fn load(&self, s: &Storage) -> (r: StdResult<Config>) ensures r is Ok ==> s.config is Some && s.config->Some_0 == r->Ok_0 { unimplemented!() }
    #[verifier::external_body] pub fn save(&self, s: &mut Storage, v: &Config) -> (r: StdResult<()>)
        ensures r is Ok ==> final(s).config == Some(*v), r is Err ==> final(s).config == old(s).config,
            final(s).tmp == old(s).tmp, final(s).pairs@ == old(s).pairs@, final(s).allow@ == old(s).allow@ { unimplemented!() }
}
impl ItemTmp {
    #[verifier::external_body] pub fn load(&self, s: &Storage) -> (r: StdResult<TmpPairInfo>) ensures r is Ok ==> s.tmp is Some && s.tmp->Some_0 == r->Ok_0 { unimplemented!() }
    #[verifier::external_body] pub fn save(&self, s: &mut Storage, v: &TmpPairInfo) -> (r: StdResult<()>)
        ensures r is Ok ==> final(s).tmp == Some(*v), r is Err ==> final(s).tmp == old(s).tmp,
            final(s).config == old(s).config, final(s).pairs@ == old(s).pairs@, final(s).allow@ == old(s).allow@ { unimplemented!() }
}
impl MapPairs {
    #[verifier::external_body] pub fn may_load(&self, s: &Storage, k: &Vec<u8>) -> (r: StdResult<Option<PairInfoRaw>>)
        ensures r is Ok,   // stored values always deserialize (they were written through save)
            (r->Ok_0 is Some <==> s.pairs@.dom().contains(k@)) && (r->Ok_0 is Some ==> r->Ok_0->Some_0 == s.pairs@[k@]) { unimplemented!() }
    // Map::range(storage, None, None, Order::Ascending), collected: every stored record exactly once (its key and its value); stored values
    // always deserialize -- ASSUMED (cw-storage-plus / cosmwasm storage iterator)
    #[verifier::external_body] pub fn range_all(&self, s: &Storage) -> (r: Vec<StdResult<(Vec<u8>, PairInfoRaw)>>)
        ensures exists|keys: Seq<Seq<u8>>| range_ok(s.pairs@, keys, r@) { unimplemented!() }
    #[verifier::external_body] pub fn load(&self, s: &Storage, k: &Vec<u8>) -> (r: StdResult<PairInfoRaw>)
        ensures r is Ok ==> s.pairs@.dom().contains(k@) && r->Ok_0 == s.pairs@[k@] { unimplemented!() }
    #[verifier::external_body] pub fn save(&self, s: &mut Storage, k: &Vec<u8>, v: &PairInfoRaw) -> (r: StdResult<()>)
        ensures r is Ok ==> final(s).pairs@ == old(s).pairs@.insert(k@, *v), r is Err ==> final(s).pairs@ == old(s).pairs@,
            final(s).config == old(s).config, final(s).tmp == old(s).tmp, final(s).allow@ == old(s).allow@ { unimplemented!() }
}
impl MapAllow {
    #[verifier::external_body] pub fn may_load(&self, s: &Storage, k: &[u8]) -> (r: StdResult<Option<u8>>)
        ensures r is Ok,
            (r->Ok_0 is Some <==> s.allow@.dom().contains(k@)) && (r->Ok_0 is Some ==> r->Ok_0->Some_0 == s.allow@[k@]) { unimplemented!() }
    #[verifier::external_body] pub fn load(&self, s: &Storage, k: &[u8]) -> (r: StdResult<u8>)
        ensures r is Ok ==> s.allow@.dom().contains(k@) && r->Ok_0 == s.allow@[k@] { unimplemented!() }
    #[verifier::external_body] pub fn save(&self, s: &mut Storage, k: &[u8], v: &u8) -> (r: StdResult<()>)
        ensures r is Ok ==> final(s).allow@ == old(s).allow@.insert(k@, *v), r is Err ==> final(s).allow@ == old(s).allow@,
            final(s).config == old(s).config, final(s).tmp == old(s).tmp, final(s).pairs@ == old(s).pairs@ { unimplemented!() }
}
pub const CONFIG: ItemConfig = ItemConfig { dummy: 0 };
pub const TMP_PAIR_INFO: ItemTmp = ItemTmp { dummy: 0 };
pub const PAIRS: MapPairs = MapPairs { dummy: 0 };
pub const ALLOW_NATIVE_TOKENS: MapAllow = MapAllow { dummy: 0 };
pub struct DepsMut<'a> { pub storage: &'a mut Storage, pub api: &'a dyn Api, pub querier: QuerierWrapper }
pub struct Deps<'a> { pub storage: &'a Storage, pub api: &'a dyn Api, pub querier: QuerierWrapper }
