// ===== router-side ASSUMED contracts: storage item, cross-contract queries =====
