// ===== router-side ASSUMED contracts: storage item, cross-contract queries =====
// factory registry and pair quotes as seen through smart queries: uninterpreted functions of the chain state
pub uninterp spec fn pair_of(w: World, factory: Seq<char>, a: AssetInfo, b: AssetInfo) -> Seq<char>;
pub uninterp spec fn sim_return(w: World, pair: Seq<char>, offer: Asset) -> Uint128;
pub uninterp spec fn rev_offer(w: World, pair: Seq<char>, ask: Asset) -> Uint128;
#[verifier::external_body] pub fn query_pair_info(querier: &QuerierWrapper, factory_contract: Addr, asset_infos: &[AssetInfo; 2]) -> (r: StdResult<PairInfo>)
    ensures r is Ok ==> r->Ok_0.contract_addr@ == pair_of(querier.world(), factory_contract.0@, asset_infos[0], asset_infos[1]) { unimplemented!() }
#[verifier::external_body] pub fn simulate(querier: &QuerierWrapper, pair_contract: Addr, offer_asset: &Asset) -> (r: StdResult<SimulationResponse>)
    ensures r is Ok ==> r->Ok_0.return_amount == sim_return(querier.world(), pair_contract.0@, *offer_asset) { unimplemented!() }
#[verifier::external_body] pub fn reverse_simulate(querier: &QuerierWrapper, pair_contract: Addr, ask_asset: &Asset) -> (r: StdResult<ReverseSimulationResponse>)
    ensures r is Ok ==> r->Ok_0.offer_amount == rev_offer(querier.world(), pair_contract.0@, *ask_asset) { unimplemented!() }
