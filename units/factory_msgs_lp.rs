//%item packages/haloswap/src/asset.rs struct LPTokenInfo
