// ===== R4 helpers: std iterator adapters replaced by plain loops that are VERIFIED here =====
pub fn vfind<'a, T, F: Fn(&T) -> bool>(v: &'a Vec<T>, f: F) -> (r: Option<&'a T>)
    requires forall|x: &T| f.requires((x,)),
    ensures
        match r {
            Some(x) => exists|i: int| 0 <= i < v@.len() && x == &v@[i] && f.ensures((&v@[i],), true)
                && (forall|j: int| 0 <= j < i ==> f.ensures((&v@[j],), false)),
            None => forall|j: int| 0 <= j < v@.len() ==> f.ensures((&v@[j],), false),
        },
{
    let mut i: usize = 0;
    while i < v.len()
        invariant 0 <= i <= v@.len(), forall|x: &T| f.requires((x,)), forall|j: int| 0 <= j < i ==> f.ensures((&v@[j],), false),
        decreases v@.len() - i,
    {
        if f(&v[i]) { return Some(&v[i]); }
        i += 1;
    }
    None
}
pub fn vfind2<'a, T, F: Fn(&T) -> bool>(v: &'a [T; 2], f: F) -> (r: Option<&'a T>)
    requires forall|x: &T| f.requires((x,)),
    ensures
        match r {
            Some(x) => (x == &v[0] && f.ensures((&v[0],), true)) || (x == &v[1] && f.ensures((&v[0],), false) && f.ensures((&v[1],), true)),
            None => f.ensures((&v[0],), false) && f.ensures((&v[1],), false),
        },
{
    if f(&v[0]) { return Some(&v[0]); }
    if f(&v[1]) { return Some(&v[1]); }
    None
}
pub fn vunwrap_or_else<T, F: FnOnce() -> T>(o: Option<T>, f: F) -> (r: T)
    requires f.requires(()),
    ensures match o { Some(v) => r == v, None => f.ensures((), r) },
{
    match o { Some(v) => v, None => f() }
}
pub fn vmap2<T, U, F: Fn(&T) -> U>(v: &[T; 2], f: F) -> (r: Vec<U>)
    requires f.requires((&v[0],)), f.requires((&v[1],)),
    ensures r@.len() == 2, f.ensures((&v[0],), r@[0]), f.ensures((&v[1],), r@[1]),
{
    let a = f(&v[0]);
    let b = f(&v[1]);
    let mut out: Vec<U> = Vec::new();
    out.push(a);
    out.push(b);
    out
}
pub fn vmap_opt<'a, T, U, F: FnOnce(&'a T) -> U>(o: Option<&'a T>, f: F) -> (r: Option<U>)
    requires o is Some ==> f.requires((o->Some_0,)),
    ensures match o { Some(x) => r is Some && f.ensures((x,), r->Some_0), None => r is None },
{
    match o { Some(x) => Some(f(x)), None => None }
}
pub fn vmap_owned<T, U, F: FnOnce(T) -> U>(o: Option<T>, f: F) -> (r: Option<U>)
    requires o is Some ==> f.requires((o->Some_0,)),
    ensures match o { Some(x) => r is Some && f.ensures((x,), r->Some_0), None => r is None },
{
    match o { Some(x) => Some(f(x)), None => None }
}
// `.map(f).collect::<Result<Vec<_>, _>>()` over an owned vector: stops at the first Err, otherwise one output per input, in order
pub fn vtry_map_all<T, U, E, F: Fn(T) -> Result<U, E>>(v: Vec<T>, f: F) -> (r: Result<Vec<U>, E>)
    requires forall|x: T| f.requires((x,)),
    ensures r is Ok ==> r->Ok_0@.len() == v@.len() && forall|i: int| 0 <= i < v@.len() ==> f.ensures((v@[i],), Ok(#[trigger] r->Ok_0@[i])),
{
    let ghost v0 = v@;
    let mut out: Vec<U> = Vec::new();
    for x in it: v.into_iter()
        invariant v0 == v@, out@.len() == it.index@, 0 <= it.index@ <= v0.len(), forall|x: T| f.requires((x,)),
            forall|i: int| 0 <= i < it.index@ ==> f.ensures((v0[i],), Ok(#[trigger] out@[i])),
    {
        proof { assert(x == v0[it.index@ as int]); }
        match f(x) {
            Ok(u) => { out.push(u); }
            Err(e) => { return Err(e); }
        }
    }
    Ok(out)
}
