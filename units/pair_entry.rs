// ===== contracts/halo-pair/src/contract.rs : reply, migrate, pool query and the query entry point =====
//%item packages/haloswap/src/pair.rs struct PoolResponse
//%item packages/haloswap/src/pair.rs struct MigrateMsg
impl ItemPairInfo {
    // Item::update(storage, f): load, apply f, save the result when f returns Ok -- ASSUMED (cw-storage-plus)
    #[verifier::external_body] pub fn update<F: FnOnce(PairInfoRaw) -> StdResult<PairInfoRaw>>(&self, s: &mut Storage, f: F) -> (r: StdResult<PairInfoRaw>)
        requires old(s).pair_info is Some ==> f.requires((old(s).pair_info->Some_0,)),
        ensures r is Ok ==> old(s).pair_info is Some && f.ensures((old(s).pair_info->Some_0,), Ok(r->Ok_0)) && final(s).pair_info == Some(r->Ok_0),
            r is Err ==> final(s).pair_info == old(s).pair_info, final(s).config == old(s).config, final(s).commission == old(s).commission { unimplemented!() }
}
pub open spec fn with_lp(p: PairInfoRaw, lp: Seq<u8>, q: PairInfoRaw) -> bool {
    q.liquidity_token.0@ == lp && q.asset_infos == p.asset_infos && q.contract_addr == p.contract_addr && q.asset_decimals == p.asset_decimals
    && q.requirements == p.requirements && q.commission_rate == p.commission_rate
}
//%fn contracts/halo-pair/src/contract.rs | - | reply
//%%rewrite #1 /\|mut (\w+)\| -> StdResult<_> \{(?=(?s:.*?)addr_canonicalize\(&(\w+)\))/ => |meta0: PairInfoRaw| -> (o: StdResult<PairInfoRaw>) ensures /*[C16,C14,C04,C05 reply.closure-sets-lp-only]*/ o is Ok ==> with_lp(meta0, canon_of(\2@), o->Ok_0) { let mut \1 = meta0; ## closure parameter `mut meta` and the inferred return type are spelled out; the closure is annotated with what it must do and verified against its real body
//%%sig
    ensures
        /*[C16,C14,C04,C05 reply.records-lp-token]*/ r is Ok ==> old(deps.storage).pair_info is Some && final(deps.storage).pair_info is Some
            && with_lp(old(deps.storage).pair_info->Some_0, canon_of(reply_contract_addr(msg)), final(deps.storage).pair_info->Some_0),
        /*[C16,C14 reply.frame]*/ final(deps.storage).config == old(deps.storage).config && final(deps.storage).commission == old(deps.storage).commission,
        /*[C07 reply.no-messages]*/ r is Ok ==> r->Ok_0.msgs().len() == 0,
//%end

//%fn contracts/halo-pair/src/contract.rs | - | migrate
//%%sig
    ensures
        /*[C14,C07,C03,C06,C12,C10 pmigrate.no-write]*/ *final(deps.storage) == *old(deps.storage),
        /*[C14,C07,C03 pmigrate.no-messages]*/ r is Ok ==> r->Ok_0.msgs().len() == 0,
//%end

//%fn contracts/halo-pair/src/contract.rs | - | query_pool
//%%sig
    ensures /*[C03,C04,C05 pquery.pool]*/ r is Ok ==> deps.storage.pair_info is Some && ({ let p = deps.storage.pair_info->Some_0; let me = human_of(p.contract_addr.0@); let a = r->Ok_0.assets;
        raw_of(a[0].info, p.asset_infos[0]) && raw_of(a[1].info, p.asset_infos[1])
        && a[0].amount.0 as nat == balance_of(deps.querier.world(), a[0].info, me) && a[1].amount.0 as nat == balance_of(deps.querier.world(), a[1].info, me)
        && r->Ok_0.total_share.0 as nat == deps.querier.world().tok_supply(human_of(p.liquidity_token.0@)) }),
//%end

pub open spec fn sim_answer(s: Storage, w: World, offer_asset: Asset, a: SimulationResponse) -> bool {
    s.pair_info is Some && s.commission is Some && ({ let pi = s.pair_info->Some_0;
        exists|i0: AssetInfo, i1: AssetInfo| #![trigger raw_of(i0, pi.asset_infos[0]), raw_of(i1, pi.asset_infos[1])] raw_of(i0, pi.asset_infos[0]) && raw_of(i1, pi.asset_infos[1])
            && sim_ok(w, human_of(pi.contract_addr.0@), i0, i1, s.commission->Some_0.0.v(), offer_asset, a.return_amount, a.spread_amount, a.commission_amount) })
}
pub open spec fn rev_answer(s: Storage, w: World, ask_asset: Asset, a: ReverseSimulationResponse) -> bool {
    s.pair_info is Some && s.commission is Some && ({ let pi = s.pair_info->Some_0;
        exists|i0: AssetInfo, i1: AssetInfo| #![trigger raw_of(i0, pi.asset_infos[0]), raw_of(i1, pi.asset_infos[1])] raw_of(i0, pi.asset_infos[0]) && raw_of(i1, pi.asset_infos[1])
            && rev_ok(w, human_of(pi.contract_addr.0@), i0, i1, s.commission->Some_0.0.v(), ask_asset, a.offer_amount) })
}
pub open spec fn self_report_answer(s: Storage, a: PairInfo) -> bool { s.pair_info is Some && normal_of(s.pair_info->Some_0, a) }
//%fn contracts/halo-pair/src/contract.rs | - | query
//%%sig
    ensures
        /*[C16,C17 pquery.dispatch.pair]*/ r is Ok ==> (msg matches QueryMsg::Pair {} ==> exists|a: PairInfo| #![trigger bin_of(a)] r->Ok_0 == bin_of(a) && self_report_answer(*deps.storage, a)),
        /*[C12,C13 pquery.dispatch.simulation]*/ r is Ok ==> (msg matches QueryMsg::Simulation { offer_asset } ==> exists|a: SimulationResponse| #![trigger bin_of(a)] r->Ok_0 == bin_of(a) && sim_answer(*deps.storage, deps.querier.world(), offer_asset, a)),
        /*[C12 pquery.dispatch.reverse-simulation]*/ r is Ok ==> (msg matches QueryMsg::ReverseSimulation { ask_asset } ==> exists|a: ReverseSimulationResponse| #![trigger bin_of(a)] r->Ok_0 == bin_of(a) && rev_answer(*deps.storage, deps.querier.world(), ask_asset, a)),
//%end
