// ===== packages/haloswap/src/formulas.rs : LP share minting =====
pub fn vcontains_addr(v: &Vec<Addr>, x: &Addr) -> (r: bool)
    ensures r == (exists|i: int| 0 <= i < v@.len() && v@[i].0@ == x.0@)
{
    let mut i: usize = 0;
    while i < v.len()
        invariant 0 <= i <= v@.len(), forall|j: int| 0 <= j < i ==> v@[j].0@ != x.0@,
        decreases v@.len() - i,
    {
        if v[i] == *x { return true; }
        i += 1;
    }
    false
}
pub open spec fn in_whitelist(wl: Seq<Addr>, who: Seq<char>) -> bool { exists|i: int| 0 <= i < wl.len() && wl[i].0@ == who }
// C05, positive supply: m = min_i floor(d_i*S/r_i); stated from the property as  min - 1 < m <= min  (cross-multiplied)
pub open spec fn c05_fair_share(d0: nat, d1: nat, r0: nat, r1: nat, s: nat, m: nat) -> bool {
    r0 > 0 && r1 > 0 && m * r0 <= d0 * s && m * r1 <= d1 * s && ((m + 1) * r0 > d0 * s || (m + 1) * r1 > d1 * s)
}
// C05, empty pair: supply becomes floor(sqrt(d0*d1))
pub open spec fn c05_first_share(d0: nat, d1: nat, m: nat) -> bool { m * m <= d0 * d1 && d0 * d1 < (m + 1) * (m + 1) }
pub open spec fn min_share(d0: nat, d1: nat, r0: nat, r1: nat, s: nat) -> nat { if d1 * s / r1 < d0 * s / r0 { d1 * s / r1 } else { d0 * s / r0 } }
pub proof fn lemma_fair_share(d0: nat, d1: nat, r0: nat, r1: nat, s: nat)
    ensures r0 > 0 && r1 > 0 ==> c05_fair_share(d0, d1, r0, r1, s, min_share(d0, d1, r0, r1, s))
{
    if r0 > 0 && r1 > 0 {
        let m = min_share(d0, d1, r0, r1, s);
        let q0 = d0 * s / r0; let q1 = d1 * s / r1;
        lemma_fundamental_div_mod((d0 * s) as int, r0 as int); lemma_mod_bound((d0 * s) as int, r0 as int);
        lemma_fundamental_div_mod((d1 * s) as int, r1 as int); lemma_mod_bound((d1 * s) as int, r1 as int);
        assert(r0 * q0 <= d0 * s && d0 * s < r0 * q0 + r0);
        assert(r1 * q1 <= d1 * s && d1 * s < r1 * q1 + r1);
        assert(m * r0 <= q0 * r0) by(nonlinear_arith) requires m <= q0;
        assert(m * r1 <= q1 * r1) by(nonlinear_arith) requires m <= q1;
        assert(q0 * r0 == r0 * q0 && q1 * r1 == r1 * q1) by(nonlinear_arith);
        assert((q0 + 1) * r0 == r0 * q0 + r0) by(nonlinear_arith);
        assert((q1 + 1) * r1 == r1 * q1 + r1) by(nonlinear_arith);
    }
}

//%fn packages/haloswap/src/formulas.rs | - | calculate_lp_token_amount_to_user
//%%rewrite #1 /pair_info\.requirements\.whitelist\.contains\(&info\.sender\)/ => vcontains_addr(&pair_info.requirements.whitelist, &info.sender) ## R4: Vec::contains -> verified helper loop
//%%rewrite #1 /\(deposits\[0\]\.u128\(\) \* deposits\[1\]\.u128\(\)\)\.integer_sqrt\(\)/ => rt_mul_u128(deposits[0].u128(), deposits[1].u128()).integer_sqrt() ## R8: primitive u128 `*` aborts on overflow (overflow-checks=true)
//%%sig
    ensures
        /*[C05 share.first-gated]*/ lp_total_supply.0 == 0 && r is Ok ==> in_whitelist(pair_info.requirements.whitelist@, info.sender.0@)
            && deposits[0].0 >= pair_info.requirements.first_asset_minimum.0 && deposits[1].0 >= pair_info.requirements.second_asset_minimum.0,
        /*[C05 share.first-sqrt]*/ lp_total_supply.0 == 0 && r is Ok ==> c05_first_share(deposits[0].0 as nat, deposits[1].0 as nat, r->Ok_0.0 as nat),
        /*[C05,C03 share.fair-min]*/ lp_total_supply.0 != 0 ==> r is Ok && c05_fair_share(deposits[0].0 as nat, deposits[1].0 as nat, pools[0].amount.0 as nat, pools[1].amount.0 as nat, lp_total_supply.0 as nat, r->Ok_0.0 as nat),
//%%insert before #1 /Ok\(std::cmp::min\(/
        proof { lemma_fair_share(deposits[0].0 as nat, deposits[1].0 as nat, pools[0].amount.0 as nat, pools[1].amount.0 as nat, lp_total_supply.0 as nat); }
//%end
