//! JSONL in (stdin) -> JSONL out (stdout): each line is one case executed on the real /repo code.
use std::io::{self, BufRead, Write};
use std::panic;
use std::str::FromStr;

use bignumber::{Decimal256, Uint256};
use cosmwasm_std::Uint128;
use serde_json::{json, Value};

mod world;

fn u128_of(v: &Value) -> u128 {
    match v {
        Value::String(s) => s.parse::<u128>().expect("u128 string"),
        Value::Number(n) => n.as_u64().expect("u64") as u128,
        _ => panic!("bad number"),
    }
}

fn dec256_raw(v: &Value) -> Decimal256 {
    // raw atomics (value * 10^18) as decimal string
    let s = match v { Value::String(s) => s.clone(), Value::Number(n) => n.to_string(), _ => panic!("bad dec") };
    let u = Uint256::from_str(&s).expect("uint256");
    Decimal256(u.0)
}

fn run_case(case: &Value) -> Value {
    let kind = case["kind"].as_str().unwrap_or("");
    match kind {
        "compute_swap" => {
            let (x, y, a) = (u128_of(&case["x"]), u128_of(&case["y"]), u128_of(&case["a"]));
            let cr = dec256_raw(&case["cr"]);
            let (n, s, c) = haloswap::formulas::compute_swap(Uint128::from(x), Uint128::from(y), Uint128::from(a), cr);
            json!({"n": n.to_string(), "spread": s.to_string(), "c": c.to_string()})
        }
        "compute_offer_amount" => {
            let (x, y, k) = (u128_of(&case["x"]), u128_of(&case["y"]), u128_of(&case["k"]));
            let cr = dec256_raw(&case["cr"]);
            let (o, s, c) = haloswap::formulas::compute_offer_amount(Uint128::from(x), Uint128::from(y), Uint128::from(k), cr);
            json!({"offer": o.to_string(), "spread": s.to_string(), "c": c.to_string()})
        }
        "bn" => bn_case(case),
        _ => world::run_case(kind, case),
    }
}

fn u256(v: &Value) -> Uint256 {
    let s = match v { Value::String(s) => s.clone(), Value::Number(n) => n.to_string(), _ => panic!("bad u256") };
    Uint256::from_str(&s).expect("uint256")
}
fn d256(v: &Value) -> Decimal256 { Decimal256(u256(v).0) }
fn ord(o: std::cmp::Ordering) -> i64 { match o { std::cmp::Ordering::Less => -1, std::cmp::Ordering::Equal => 0, std::cmp::Ordering::Greater => 1 } }

/// one public bignumber operation on raw 256-bit operands (decimals are given as raw atomics)
fn bn_case(case: &Value) -> Value {
    let op = case["op"].as_str().unwrap_or("");
    let a = &case["a"]; let b = &case["b"]; let c = &case["c"];
    let r: String = match op {
        "uint_add" => (u256(a) + u256(b)).to_string(),
        "uint_add_assign" => { let mut x = u256(a); x += u256(b); x.to_string() }
        "uint_sub" => (u256(a) - u256(b)).to_string(),
        "uint_mul" => (u256(a) * u256(b)).to_string(),
        "uint_mul_dec" => (u256(a) * d256(b)).to_string(),
        "dec_mul_uint" => (d256(a) * u256(b)).to_string(),
        "uint_div_dec" => (u256(a) / d256(b)).to_string(),
        "multiply_ratio" => u256(a).multiply_ratio(u256(b).0, u256(c).0).to_string(),
        "dec_add" => Uint256((d256(a) + d256(b)).0).to_string(),
        "dec_add_assign" => { let mut x = d256(a); x += d256(b); Uint256(x.0).to_string() }
        "dec_sub" => Uint256((d256(a) - d256(b)).0).to_string(),
        "dec_mul" => Uint256((d256(a) * d256(b)).0).to_string(),
        "dec_div" => Uint256((d256(a) / d256(b)).0).to_string(),
        "from_ratio" => Uint256(Decimal256::from_ratio(u256(a).0, u256(b).0).0).to_string(),
        "from_uint256" => Uint256(Decimal256::from_uint256(u256(a)).0).to_string(),
        "percent" => Uint256(Decimal256::percent(u128_of(a) as u64).0).to_string(),
        "permille" => Uint256(Decimal256::permille(u128_of(a) as u64).0).to_string(),
        "dec_one" => Uint256(Decimal256::one().0).to_string(),
        "dec_zero" => Uint256(Decimal256::zero().0).to_string(),
        "uint_one" => Uint256::one().to_string(),
        "uint_zero" => Uint256::zero().to_string(),
        "uint_is_zero" => (u256(a).is_zero() as u8).to_string(),
        "dec_is_zero" => (d256(a).is_zero() as u8).to_string(),
        "cmp_uint" => ord(u256(a).cmp(&u256(b))).to_string(),
        "pcmp_uint" => ord(u256(a).partial_cmp(&u256(b)).unwrap()).to_string(),
        "eq_uint" => ((u256(a) == u256(b)) as u8).to_string(),
        "lt_uint" => ((u256(a) < u256(b)) as u8).to_string(),
        "cmp_dec" => ord(d256(a).cmp(&d256(b))).to_string(),
        "lt_dec" => ((d256(a) < d256(b)) as u8).to_string(),
        "eq_dec" => ((d256(a) == d256(b)) as u8).to_string(),
        "to_u128" => { let x: u128 = u256(a).into(); x.to_string() }
        "to_uint128" => { let x: Uint128 = u256(a).into(); x.to_string() }
        "from_u128" => Uint256::from(u128_of(a)).to_string(),
        "from_uint128" => Uint256::from(Uint128::from(u128_of(a))).to_string(),
        "from_u64" => Uint256::from(u128_of(a) as u64).to_string(),
        _ => return json!({"error": "unknown bn op"}),
    };
    json!({"r": r})
}

fn main() {
    panic::set_hook(Box::new(|_| {}));
    let stdin = io::stdin();
    let stdout = io::stdout();
    let mut out = stdout.lock();
    for line in stdin.lock().lines() {
        let line = line.unwrap();
        if line.trim().is_empty() { continue; }
        let case: Value = serde_json::from_str(&line).expect("json case");
        let c2 = case.clone();
        let res = panic::catch_unwind(move || run_case(&c2));
        let v = match res {
            Ok(v) => json!({"ok": true, "out": v}),
            Err(e) => {
                let msg = if let Some(s) = e.downcast_ref::<String>() { s.clone() } else if let Some(s) = e.downcast_ref::<&str>() { s.to_string() } else { "panic".to_string() };
                json!({"ok": false, "panic": msg})
            }
        };
        writeln!(out, "{}", v).unwrap();
    }
}
