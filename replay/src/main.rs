//! JSONL in (stdin) -> JSONL out (stdout): each line is one case executed on the real /repo code.
use std::io::{self, BufRead, Write};
use std::panic;
use std::str::FromStr;

use bignumber::{Decimal256, Uint256};
use cosmwasm_std::Uint128;
use serde_json::{json, Value};

mod world;

fn u128_of(v: &Value) -> u128 {
    match v {
        Value::String(s) => s.parse::<u128>().expect("u128 string"),
        Value::Number(n) => n.as_u64().expect("u64") as u128,
        _ => panic!("bad number"),
    }
}

fn dec256_raw(v: &Value) -> Decimal256 {
    // raw atomics (value * 10^18) as decimal string
    let s = match v { Value::String(s) => s.clone(), Value::Number(n) => n.to_string(), _ => panic!("bad dec") };
    let u = Uint256::from_str(&s).expect("uint256");
    Decimal256(u.0)
}

fn run_case(case: &Value) -> Value {
    let kind = case["kind"].as_str().unwrap_or("");
    match kind {
        "compute_swap" => {
            let (x, y, a) = (u128_of(&case["x"]), u128_of(&case["y"]), u128_of(&case["a"]));
            let cr = dec256_raw(&case["cr"]);
            let (n, s, c) = haloswap::formulas::compute_swap(Uint128::from(x), Uint128::from(y), Uint128::from(a), cr);
            json!({"n": n.to_string(), "spread": s.to_string(), "c": c.to_string()})
        }
        "compute_offer_amount" => {
            let (x, y, k) = (u128_of(&case["x"]), u128_of(&case["y"]), u128_of(&case["k"]));
            let cr = dec256_raw(&case["cr"]);
            let (o, s, c) = haloswap::formulas::compute_offer_amount(Uint128::from(x), Uint128::from(y), Uint128::from(k), cr);
            json!({"offer": o.to_string(), "spread": s.to_string(), "c": c.to_string()})
        }
        "bn" => bn_case(case),
        "text" => text_case(case),
        "assert_operations" => {
            // route shape check on abstract asset labels: "n:<denom>" native, "t:<addr>" cw20
            let mk = |s: &str| -> haloswap::asset::AssetInfo {
                if let Some(d) = s.strip_prefix("n:") { haloswap::asset::AssetInfo::NativeToken { denom: d.to_string() } } else { haloswap::asset::AssetInfo::Token { contract_addr: s[2..].to_string() } }
            };
            let ops: Vec<haloswap::router::SwapOperation> = case["ops"].as_array().unwrap().iter().map(|h| haloswap::router::SwapOperation::HaloSwap {
                offer_asset_info: mk(h[0].as_str().unwrap()), ask_asset_info: mk(h[1].as_str().unwrap()) }).collect();
            json!({"accepted": halo_router::assert::assert_operations(&ops).is_ok()})
        }
        "max_spread" => {
            let od = |v: &Value| -> Option<cosmwasm_std::Decimal> { if v.is_null() { None } else { Some(cosmwasm_std::Decimal::from_atomics(Uint128::from(u128_of(v)), 18).unwrap()) } };
            let asset = |amt: &Value| haloswap::asset::Asset { info: haloswap::asset::AssetInfo::NativeToken { denom: "x".to_string() }, amount: Uint128::from(u128_of(amt)) };
            let r = halo_pair::assert::assert_max_spread(od(&case["belief_price"]), od(&case["max_spread"]), asset(&case["offer"]), asset(&case["ret"]), Uint128::from(u128_of(&case["spread"])),
                case["od"].as_u64().unwrap() as u8, case["rd"].as_u64().unwrap() as u8);
            match r { Ok(()) => json!({"r": "ok"}), Err(haloswap::error::ContractError::MaxSpreadAssertion {}) => json!({"r": "guard"}), Err(e) => json!({"r": "err", "e": e.to_string()}) }
        }
        "slippage" => {
            let t = if case["t"].is_null() { None } else { Some(cosmwasm_std::Decimal::from_atomics(Uint128::from(u128_of(&case["t"])), 18).unwrap()) };
            let asset = |amt: &Value| haloswap::asset::Asset { info: haloswap::asset::AssetInfo::NativeToken { denom: "x".to_string() }, amount: Uint128::from(u128_of(amt)) };
            let r = halo_pair::assert::assert_slippage_tolerance(&t, &[Uint128::from(u128_of(&case["d0"])), Uint128::from(u128_of(&case["d1"]))], &[asset(&case["r0"]), asset(&case["r1"])]);
            match r { Ok(()) => json!({"r": "ok"}), Err(haloswap::error::ContractError::MaxSlippageAssertion {}) => json!({"r": "guard"}), Err(e) => json!({"r": "err", "e": e.to_string()}) }
        }
        "pair_key" => {
            // registry key of two raw identifiers: {"n": "<denom>"} native, {"t": "<hex canonical bytes>"} cw20
            let mk = |v: &Value| -> haloswap::asset::AssetInfoRaw {
                if let Some(d) = v.get("n") { haloswap::asset::AssetInfoRaw::NativeToken { denom: d.as_str().unwrap().to_string() } }
                else { let h = v["t"].as_str().unwrap(); let bytes: Vec<u8> = (0..h.len() / 2).map(|i| u8::from_str_radix(&h[2 * i..2 * i + 2], 16).unwrap()).collect();
                       haloswap::asset::AssetInfoRaw::Token { contract_addr: cosmwasm_std::CanonicalAddr::from(bytes) } }
            };
            let k = halo_factory::state::pair_key(&[mk(&case["a"]), mk(&case["b"])]);
            json!({"key": k.iter().map(|b| format!("{:02x}", b)).collect::<String>()})
        }
        _ => world::run_case(kind, case),
    }
}

/// C18: text / JSON / width conversions of the bignumber types on the REAL code.  Decimals travel as raw atomics (decimal strings).
fn text_case(case: &Value) -> Value {
    let op = case["op"].as_str().unwrap_or("");
    let s = case["s"].as_str().unwrap_or("");
    match op {
        "dec_parse" => match Decimal256::from_str(s) { Ok(d) => json!({"ok": Uint256(d.0).to_string()}), Err(e) => json!({"err": e.to_string()}) },
        "uint_parse" => match Uint256::from_str(s) { Ok(d) => json!({"ok": d.to_string()}), Err(e) => json!({"err": e.to_string()}) },
        "uint_try_from" => match Uint256::try_from(s) { Ok(d) => json!({"ok": d.to_string()}), Err(e) => json!({"err": e.to_string()}) },
        "dec_render" => json!({"text": d256(&case["a"]).to_string()}),
        "uint_render" => json!({"text": u256(&case["a"]).to_string(), "string_from": String::from(u256(&case["a"]))}),
        "dec_json" => {
            let d = d256(&case["a"]);
            let j = serde_json::to_string(&d).unwrap();
            let back: Result<Decimal256, _> = serde_json::from_str(&j);
            json!({"json": j, "back": back.ok().map(|x| Uint256(x.0).to_string())})
        }
        "uint_json" => {
            let d = u256(&case["a"]);
            let j = serde_json::to_string(&d).unwrap();
            let back: Result<Uint256, _> = serde_json::from_str(&j);
            json!({"json": j, "back": back.ok().map(|x| x.to_string())})
        }
        "dec_json_parse" => { let back: Result<Decimal256, _> = serde_json::from_str(&serde_json::to_string(s).unwrap()); match back { Ok(d) => json!({"ok": Uint256(d.0).to_string()}), Err(_) => json!({"err": "rejected"}) } }
        "uint_json_parse" => { let back: Result<Uint256, _> = serde_json::from_str(&serde_json::to_string(s).unwrap()); match back { Ok(d) => json!({"ok": d.to_string()}), Err(_) => json!({"err": "rejected"}) } }
        // Decimal (128-bit, atomics given) -> Decimal256 and back
        "dec_from_decimal" => { let d = cosmwasm_std::Decimal::from_atomics(Uint128::from(u128_of(&case["a"])), 18).unwrap(); json!({"ok": Uint256(Decimal256::from(d).0).to_string()}) }
        "decimal_from_dec" => { let d: cosmwasm_std::Decimal = d256(&case["a"]).into(); json!({"ok": d.atomics().to_string()}) }
        "uint128_from_uint" => { let x: Uint128 = u256(&case["a"]).into(); json!({"ok": x.to_string()}) }
        "u128_from_uint" => { let x: u128 = u256(&case["a"]).into(); json!({"ok": x.to_string()}) }
        "uint_from_u128" => json!({"ok": Uint256::from(u128_of(&case["a"])).to_string()}),
        "uint_from_uint128" => json!({"ok": Uint256::from(Uint128::from(u128_of(&case["a"]))).to_string()}),
        "uint_from_u64" => json!({"ok": Uint256::from(case["a"].as_str().unwrap().parse::<u64>().unwrap()).to_string()}),
        _ => json!({"err": "unknown op"}),
    }
}

fn u256(v: &Value) -> Uint256 {
    let s = match v { Value::String(s) => s.clone(), Value::Number(n) => n.to_string(), _ => panic!("bad u256") };
    Uint256::from_str(&s).expect("uint256")
}
fn d256(v: &Value) -> Decimal256 { Decimal256(u256(v).0) }
fn ord(o: std::cmp::Ordering) -> i64 { match o { std::cmp::Ordering::Less => -1, std::cmp::Ordering::Equal => 0, std::cmp::Ordering::Greater => 1 } }

/// one public bignumber operation on raw 256-bit operands (decimals are given as raw atomics)
fn bn_case(case: &Value) -> Value {
    let op = case["op"].as_str().unwrap_or("");
    let a = &case["a"]; let b = &case["b"]; let c = &case["c"];
    let r: String = match op {
        "uint_add" => (u256(a) + u256(b)).to_string(),
        "uint_add_assign" => { let mut x = u256(a); x += u256(b); x.to_string() }
        "uint_sub" => (u256(a) - u256(b)).to_string(),
        "uint_mul" => (u256(a) * u256(b)).to_string(),
        "uint_mul_dec" => (u256(a) * d256(b)).to_string(),
        "dec_mul_uint" => (d256(a) * u256(b)).to_string(),
        "uint_div_dec" => (u256(a) / d256(b)).to_string(),
        "multiply_ratio" => u256(a).multiply_ratio(u256(b).0, u256(c).0).to_string(),
        "dec_add" => Uint256((d256(a) + d256(b)).0).to_string(),
        "dec_add_assign" => { let mut x = d256(a); x += d256(b); Uint256(x.0).to_string() }
        "dec_sub" => Uint256((d256(a) - d256(b)).0).to_string(),
        "dec_mul" => Uint256((d256(a) * d256(b)).0).to_string(),
        "dec_div" => Uint256((d256(a) / d256(b)).0).to_string(),
        "from_ratio" => Uint256(Decimal256::from_ratio(u256(a).0, u256(b).0).0).to_string(),
        "from_uint256" => Uint256(Decimal256::from_uint256(u256(a)).0).to_string(),
        "percent" => Uint256(Decimal256::percent(u128_of(a) as u64).0).to_string(),
        "permille" => Uint256(Decimal256::permille(u128_of(a) as u64).0).to_string(),
        "dec_one" => Uint256(Decimal256::one().0).to_string(),
        "dec_zero" => Uint256(Decimal256::zero().0).to_string(),
        "uint_one" => Uint256::one().to_string(),
        "uint_zero" => Uint256::zero().to_string(),
        "uint_is_zero" => (u256(a).is_zero() as u8).to_string(),
        "dec_is_zero" => (d256(a).is_zero() as u8).to_string(),
        "cmp_uint" => ord(u256(a).cmp(&u256(b))).to_string(),
        "pcmp_uint" => ord(u256(a).partial_cmp(&u256(b)).unwrap()).to_string(),
        "eq_uint" => ((u256(a) == u256(b)) as u8).to_string(),
        "lt_uint" => ((u256(a) < u256(b)) as u8).to_string(),
        "cmp_dec" => ord(d256(a).cmp(&d256(b))).to_string(),
        "lt_dec" => ((d256(a) < d256(b)) as u8).to_string(),
        "eq_dec" => ((d256(a) == d256(b)) as u8).to_string(),
        "to_u128" => { let x: u128 = u256(a).into(); x.to_string() }
        "to_uint128" => { let x: Uint128 = u256(a).into(); x.to_string() }
        "from_u128" => Uint256::from(u128_of(a)).to_string(),
        "from_uint128" => Uint256::from(Uint128::from(u128_of(a))).to_string(),
        "from_u64" => Uint256::from(u128_of(a) as u64).to_string(),
        _ => return json!({"error": "unknown bn op"}),
    };
    json!({"r": r})
}

fn main() {
    panic::set_hook(Box::new(|_| {}));
    let stdin = io::stdin();
    let stdout = io::stdout();
    let mut out = stdout.lock();
    for line in stdin.lock().lines() {
        let line = line.unwrap();
        if line.trim().is_empty() { continue; }
        let case: Value = serde_json::from_str(&line).expect("json case");
        let c2 = case.clone();
        let res = panic::catch_unwind(move || run_case(&c2));
        let v = match res {
            Ok(v) => json!({"ok": true, "out": v}),
            Err(e) => {
                let msg = if let Some(s) = e.downcast_ref::<String>() { s.clone() } else if let Some(s) = e.downcast_ref::<&str>() { s.to_string() } else { "panic".to_string() };
                json!({"ok": false, "panic": msg})
            }
        };
        writeln!(out, "{}", v).unwrap();
    }
}
