//! JSONL in (stdin) -> JSONL out (stdout): each line is one case executed on the real /repo code.
use std::io::{self, BufRead, Write};
use std::panic;
use std::str::FromStr;

use bignumber::{Decimal256, Uint256};
use cosmwasm_std::Uint128;
use serde_json::{json, Value};

mod world;

fn u128_of(v: &Value) -> u128 {
    match v {
        Value::String(s) => s.parse::<u128>().expect("u128 string"),
        Value::Number(n) => n.as_u64().expect("u64") as u128,
        _ => panic!("bad number"),
    }
}

fn dec256_raw(v: &Value) -> Decimal256 {
    // raw atomics (value * 10^18) as decimal string
    let s = match v { Value::String(s) => s.clone(), Value::Number(n) => n.to_string(), _ => panic!("bad dec") };
    let u = Uint256::from_str(&s).expect("uint256");
    Decimal256(u.0)
}

fn run_case(case: &Value) -> Value {
    let kind = case["kind"].as_str().unwrap_or("");
    match kind {
        "compute_swap" => {
            let (x, y, a) = (u128_of(&case["x"]), u128_of(&case["y"]), u128_of(&case["a"]));
            let cr = dec256_raw(&case["cr"]);
            let (n, s, c) = haloswap::formulas::compute_swap(Uint128::from(x), Uint128::from(y), Uint128::from(a), cr);
            json!({"n": n.to_string(), "spread": s.to_string(), "c": c.to_string()})
        }
        "compute_offer_amount" => {
            let (x, y, k) = (u128_of(&case["x"]), u128_of(&case["y"]), u128_of(&case["k"]));
            let cr = dec256_raw(&case["cr"]);
            let (o, s, c) = haloswap::formulas::compute_offer_amount(Uint128::from(x), Uint128::from(y), Uint128::from(k), cr);
            json!({"offer": o.to_string(), "spread": s.to_string(), "c": c.to_string()})
        }
        _ => world::run_case(kind, case),
    }
}

fn main() {
    panic::set_hook(Box::new(|_| {}));
    let stdin = io::stdin();
    let stdout = io::stdout();
    let mut out = stdout.lock();
    for line in stdin.lock().lines() {
        let line = line.unwrap();
        if line.trim().is_empty() { continue; }
        let case: Value = serde_json::from_str(&line).expect("json case");
        let c2 = case.clone();
        let res = panic::catch_unwind(move || run_case(&c2));
        let v = match res {
            Ok(v) => json!({"ok": true, "out": v}),
            Err(e) => {
                let msg = if let Some(s) = e.downcast_ref::<String>() { s.clone() } else if let Some(s) = e.downcast_ref::<&str>() { s.to_string() } else { "panic".to_string() };
                json!({"ok": false, "panic": msg})
            }
        };
        writeln!(out, "{}", v).unwrap();
    }
}
