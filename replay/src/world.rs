//! cw-multi-test worlds for system-level replays (filled in per property).
use serde_json::{json, Value};

pub fn run_case(kind: &str, _case: &Value) -> Value {
    json!({"error": format!("unknown case kind {}", kind)})
}
