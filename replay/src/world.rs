//! cw-multi-test world running the REAL factory / pair / router contracts and cw20-base.
//! A case of kind "scenario" describes the world and a list of steps; the output is, per step,
//! success/failure plus a full snapshot (pair reserves, LP supplies, watched accounts' balances).
use std::collections::BTreeMap;

use cosmwasm_std::{to_binary, Addr, Coin, Decimal, Empty, Uint128};
use cw20::{BalanceResponse, Cw20Coin, Cw20ExecuteMsg, Cw20QueryMsg, MinterResponse, TokenInfoResponse};
use cw_multi_test::{App, AppBuilder, Contract, ContractWrapper, Executor};
use serde_json::{json, Value};
use std::str::FromStr;

use bignumber::Decimal256;
use haloswap::asset::{Asset, AssetInfo, CreatePairRequirements, LPTokenInfo, PairInfo};
use haloswap::factory::{ExecuteMsg as FactoryExecuteMsg, InstantiateMsg as FactoryInstantiateMsg, QueryMsg as FactoryQueryMsg};
use haloswap::pair::{Cw20HookMsg as PairHookMsg, ExecuteMsg as PairExecuteMsg, QueryMsg as PairQueryMsg};
use haloswap::router::{Cw20HookMsg as RouterHookMsg, ExecuteMsg as RouterExecuteMsg, InstantiateMsg as RouterInstantiateMsg, QueryMsg as RouterQueryMsg, SwapOperation};

fn factory_code() -> Box<dyn Contract<Empty>> {
    Box::new(ContractWrapper::new(halo_factory::contract::execute, halo_factory::contract::instantiate, halo_factory::contract::query).with_reply(halo_factory::contract::reply))
}
fn pair_code() -> Box<dyn Contract<Empty>> {
    Box::new(ContractWrapper::new(halo_pair::contract::execute, halo_pair::contract::instantiate, halo_pair::contract::query).with_reply(halo_pair::contract::reply))
}
fn router_code() -> Box<dyn Contract<Empty>> {
    Box::new(ContractWrapper::new(halo_router::contract::execute, halo_router::contract::instantiate, halo_router::contract::query))
}
fn token_code() -> Box<dyn Contract<Empty>> {
    Box::new(ContractWrapper::new(cw20_base::contract::execute, cw20_base::contract::instantiate, cw20_base::contract::query))
}

fn s(v: &Value) -> String {
    match v { Value::String(x) => x.clone(), Value::Number(n) => n.to_string(), _ => panic!("expected string/number: {}", v) }
}
fn u(v: &Value) -> Uint128 { Uint128::from(s(v).parse::<u128>().expect("u128")) }
fn dec_raw(v: &Value) -> Decimal { Decimal::from_atomics(u(v), 18).expect("decimal") }
fn opt_dec(v: &Value) -> Option<Decimal> { if v.is_null() { None } else { Some(dec_raw(v)) } }
fn opt_s(v: &Value) -> Option<String> { if v.is_null() { None } else { Some(s(v)) } }

pub struct World {
    app: App,
    admin: Addr,
    factory: Addr,
    router: Addr,
    tokens: BTreeMap<String, Addr>,
    pairs: Vec<PairInfo>,
    watch: Vec<String>,
}

impl World {
    fn asset_info(&self, v: &Value) -> AssetInfo {
        if let Some(t) = v.get("token") {
            let name = s(t);
            let addr = self.tokens.get(&name).map(|a| a.to_string()).unwrap_or(name);
            AssetInfo::Token { contract_addr: addr }
        } else {
            AssetInfo::NativeToken { denom: s(&v["native"]) }
        }
    }
    fn balance(&self, info: &AssetInfo, who: &str) -> Uint128 {
        match info {
            AssetInfo::NativeToken { denom } => self.app.wrap().query_balance(who, denom.clone()).map(|c| c.amount).unwrap_or_default(),
            AssetInfo::Token { contract_addr } => {
                let r: Result<BalanceResponse, _> = self.app.wrap().query_wasm_smart(contract_addr.clone(), &Cw20QueryMsg::Balance { address: who.to_string() });
                r.map(|b| b.balance).unwrap_or_default()
            }
        }
    }
    fn supply(&self, token: &str) -> Uint128 {
        let r: Result<TokenInfoResponse, _> = self.app.wrap().query_wasm_smart(token.to_string(), &Cw20QueryMsg::TokenInfo {});
        r.map(|t| t.total_supply).unwrap_or_default()
    }
    fn all_assets(&self) -> Vec<AssetInfo> {
        let mut v: Vec<AssetInfo> = vec![];
        for p in &self.pairs { for a in p.asset_infos.iter() { if !v.contains(a) { v.push(a.clone()); } } }
        v
    }
    fn snapshot(&self) -> Value {
        let mut pairs = vec![];
        for p in &self.pairs {
            // re-read the pair's own description (decimals can change)
            let own: Result<PairInfo, _> = self.app.wrap().query_wasm_smart(p.contract_addr.clone(), &PairQueryMsg::Pair {});
            let fac: Result<PairInfo, _> = self.app.wrap().query_wasm_smart(self.factory.clone(), &FactoryQueryMsg::Pair { asset_infos: p.asset_infos.clone() });
            pairs.push(json!({
                "addr": p.contract_addr,
                "reserves": [self.balance(&p.asset_infos[0], &p.contract_addr).to_string(), self.balance(&p.asset_infos[1], &p.contract_addr).to_string()],
                "lp_supply": self.supply(&p.liquidity_token).to_string(),
                "lp_self": self.balance(&AssetInfo::Token { contract_addr: p.liquidity_token.clone() }, &p.liquidity_token).to_string(),
                "own_decimals": own.as_ref().map(|o| json!(o.asset_decimals)).unwrap_or(Value::Null),
                "factory_decimals": fac.as_ref().map(|o| json!(o.asset_decimals)).unwrap_or(Value::Null),
            }));
        }
        let assets = self.all_assets();
        let mut accts = serde_json::Map::new();
        let mut names: Vec<String> = self.watch.clone();
        names.push(self.router.to_string());
        for w in names {
            let mut m = serde_json::Map::new();
            for a in &assets { m.insert(a.to_string(), json!(self.balance(a, &w).to_string())); }
            for (i, p) in self.pairs.iter().enumerate() {
                m.insert(format!("lp{}", i), json!(self.balance(&AssetInfo::Token { contract_addr: p.liquidity_token.clone() }, &w).to_string()));
            }
            accts.insert(w, Value::Object(m));
        }
        // per-asset totals over watched accounts + pairs + router (conservation checks)
        json!({"pairs": pairs, "accounts": accts, "router": self.router.to_string()})
    }

    fn create_pair(&mut self, p: &Value) -> Result<(), String> {
        let infos = [self.asset_info(&p["assets"][0]), self.asset_info(&p["assets"][1])];
        let wl: Vec<Addr> = p["whitelist"].as_array().map(|a| a.iter().map(|x| Addr::unchecked(s(x))).collect()).unwrap_or_default();
        let mins = p.get("min").and_then(|m| m.as_array()).map(|m| (u(&m[0]), u(&m[1]))).unwrap_or((Uint128::zero(), Uint128::zero()));
        let cr = p.get("commission").filter(|c| !c.is_null()).map(|c| { let raw = bignumber::Uint256::from_str(&s(c)).unwrap(); Decimal256(raw.0) });
        let sender = p.get("sender").map(|x| Addr::unchecked(s(x))).unwrap_or(self.admin.clone());
        let msg = FactoryExecuteMsg::CreatePair {
            asset_infos: infos.clone(),
            requirements: CreatePairRequirements { whitelist: wl, first_asset_minimum: mins.0, second_asset_minimum: mins.1 },
            commission_rate: cr,
            lp_token_info: LPTokenInfo { lp_token_name: "lptoken".into(), lp_token_symbol: "LPT".into(), lp_token_decimals: None },
        };
        self.app.execute_contract(sender, self.factory.clone(), &msg, &[]).map_err(|e| format!("{:#}", e))?;
        let info: PairInfo = self.app.wrap().query_wasm_smart(self.factory.clone(), &FactoryQueryMsg::Pair { asset_infos: infos }).map_err(|e| e.to_string())?;
        self.pairs.push(info);
        Ok(())
    }

    fn funds_of(v: &Value) -> Vec<Coin> {
        let mut out = vec![];
        if let Some(m) = v.as_object() { for (d, a) in m { out.push(Coin { denom: d.clone(), amount: u(a) }); } }
        if let Some(arr) = v.as_array() { for c in arr { out.push(Coin { denom: s(&c["denom"]), amount: u(&c["amount"]) }); } }
        out
    }

    fn step(&mut self, st: &Value) -> Result<Value, String> {
        let op = st["op"].as_str().unwrap_or("");
        let sender = Addr::unchecked(st.get("sender").map(s).unwrap_or_else(|| self.admin.to_string()));
        match op {
            "create_pair" => { self.create_pair(st)?; Ok(json!({})) }
            "provide" => {
                let p = self.pairs[st["pair"].as_u64().unwrap() as usize].clone();
                let amts = [u(&st["amounts"][0]), u(&st["amounts"][1])];
                let mut funds = vec![];
                for i in 0..2 {
                    match &p.asset_infos[i] {
                        AssetInfo::Token { contract_addr } => {
                            let allow = st.get("allowances").map(|a| u(&a[i])).unwrap_or(amts[i]);
                            if !allow.is_zero() {
                                self.app.execute_contract(sender.clone(), Addr::unchecked(contract_addr), &Cw20ExecuteMsg::IncreaseAllowance { spender: p.contract_addr.clone(), amount: allow, expires: None }, &[]).map_err(|e| format!("allowance: {:#}", e))?;
                            }
                        }
                        AssetInfo::NativeToken { denom } => { if !amts[i].is_zero() { funds.push(Coin { denom: denom.clone(), amount: amts[i] }); } }
                    }
                }
                if let Some(f) = st.get("funds") { funds = Self::funds_of(f); }
                let mut assets = [Asset { info: p.asset_infos[0].clone(), amount: amts[0] }, Asset { info: p.asset_infos[1].clone(), amount: amts[1] }];
                if st.get("reverse_order").and_then(|b| b.as_bool()).unwrap_or(false) { assets.swap(0, 1); }
                if let Some(ov) = st.get("assets") { assets = [Asset { info: self.asset_info(&ov[0]), amount: u(&ov[0]["amount"]) }, Asset { info: self.asset_info(&ov[1]), amount: u(&ov[1]["amount"]) }]; }
                funds.sort_by(|a, b| a.denom.cmp(&b.denom));
                let msg = PairExecuteMsg::ProvideLiquidity { assets, slippage_tolerance: opt_dec(&st["slippage"]), receiver: opt_s(&st["receiver"]) };
                self.app.execute_contract(sender, Addr::unchecked(&p.contract_addr), &msg, &funds).map_err(|e| format!("{:#}", e))?;
                Ok(json!({}))
            }
            "swap" => {
                let p = self.pairs[st["pair"].as_u64().unwrap() as usize].clone();
                let oi = st["offer_idx"].as_u64().unwrap() as usize;
                let amount = u(&st["amount"]);
                let named_idx = st.get("named_idx").and_then(|x| x.as_u64()).map(|x| x as usize).unwrap_or(oi);
                let named_info = if let Some(n) = st.get("named") { self.asset_info(n) } else { p.asset_infos[named_idx].clone() };
                let named_amount = st.get("named_amount").map(u).unwrap_or(amount);
                let offer_asset = Asset { info: named_info, amount: named_amount };
                let (bp, ms, to) = (opt_dec(&st["belief_price"]), opt_dec(&st["max_spread"]), opt_s(&st["to"]));
                let res = match &p.asset_infos[oi] {
                    AssetInfo::NativeToken { denom } => {
                        let mut funds = if amount.is_zero() { vec![] } else { vec![Coin { denom: denom.clone(), amount }] };
                        if let Some(f) = st.get("funds") { funds = Self::funds_of(f); }
                        funds.sort_by(|a, b| a.denom.cmp(&b.denom));
                        self.app.execute_contract(sender, Addr::unchecked(&p.contract_addr), &PairExecuteMsg::Swap { offer_asset, belief_price: bp, max_spread: ms, to }, &funds)
                    }
                    AssetInfo::Token { contract_addr } => {
                        if st.get("direct").and_then(|b| b.as_bool()).unwrap_or(false) {
                            let funds = st.get("funds").map(Self::funds_of).unwrap_or_default();
                            self.app.execute_contract(sender, Addr::unchecked(&p.contract_addr), &PairExecuteMsg::Swap { offer_asset, belief_price: bp, max_spread: ms, to }, &funds)
                        } else {
                            let hook = PairHookMsg::Swap { offer_asset, belief_price: bp, max_spread: ms, to };
                            self.app.execute_contract(sender, Addr::unchecked(contract_addr), &Cw20ExecuteMsg::Send { contract: p.contract_addr.clone(), amount, msg: to_binary(&hook).unwrap() }, &[])
                        }
                    }
                };
                let r = res.map_err(|e| format!("{:#}", e))?;
                let mut attrs = serde_json::Map::new();
                for ev in r.events.iter() { if ev.ty == "wasm" { for a in ev.attributes.iter() { attrs.insert(a.key.clone(), json!(a.value)); } } }
                Ok(json!({"attrs": attrs}))
            }
            "withdraw" => {
                let p = self.pairs[st["pair"].as_u64().unwrap() as usize].clone();
                let amount = u(&st["amount"]);
                let via = st.get("via_token").map(|t| self.tokens.get(&s(t)).map(|a| a.to_string()).unwrap_or(s(t))).unwrap_or(p.liquidity_token.clone());
                self.app.execute_contract(sender, Addr::unchecked(via), &Cw20ExecuteMsg::Send { contract: p.contract_addr.clone(), amount, msg: to_binary(&PairHookMsg::WithdrawLiquidity {}).unwrap() }, &[]).map_err(|e| format!("{:#}", e))?;
                Ok(json!({}))
            }
            "donate" => {
                let p = self.pairs[st["pair"].as_u64().unwrap() as usize].clone();
                let idx = st["idx"].as_u64().unwrap() as usize;
                let amount = u(&st["amount"]);
                match &p.asset_infos[idx] {
                    AssetInfo::NativeToken { denom } => { self.app.send_tokens(sender, Addr::unchecked(&p.contract_addr), &[Coin { denom: denom.clone(), amount }]).map_err(|e| format!("{:#}", e))?; }
                    AssetInfo::Token { contract_addr } => { self.app.execute_contract(sender, Addr::unchecked(contract_addr), &Cw20ExecuteMsg::Transfer { recipient: p.contract_addr.clone(), amount }, &[]).map_err(|e| format!("{:#}", e))?; }
                }
                Ok(json!({}))
            }
            "transfer" => {
                let info = self.asset_info(&st["asset"]);
                let amount = u(&st["amount"]);
                let to = s(&st["to"]);
                match &info {
                    AssetInfo::NativeToken { denom } => { self.app.send_tokens(sender, Addr::unchecked(to), &[Coin { denom: denom.clone(), amount }]).map_err(|e| format!("{:#}", e))?; }
                    AssetInfo::Token { contract_addr } => { self.app.execute_contract(sender, Addr::unchecked(contract_addr), &Cw20ExecuteMsg::Transfer { recipient: to, amount }, &[]).map_err(|e| format!("{:#}", e))?; }
                }
                Ok(json!({}))
            }
            "allow" => {
                let info = self.asset_info(&st["asset"]);
                if let AssetInfo::Token { contract_addr } = info {
                    self.app.execute_contract(sender, Addr::unchecked(contract_addr), &Cw20ExecuteMsg::IncreaseAllowance { spender: s(&st["spender"]), amount: u(&st["amount"]), expires: None }, &[]).map_err(|e| format!("{:#}", e))?;
                }
                Ok(json!({}))
            }
            "simulate" | "reverse_simulate" => {
                let p = self.pairs[st["pair"].as_u64().unwrap() as usize].clone();
                let idx = st["idx"].as_u64().unwrap() as usize;
                let a = Asset { info: p.asset_infos[idx].clone(), amount: u(&st["amount"]) };
                if op == "simulate" {
                    let r: haloswap::pair::SimulationResponse = self.app.wrap().query_wasm_smart(p.contract_addr.clone(), &PairQueryMsg::Simulation { offer_asset: a }).map_err(|e| e.to_string())?;
                    Ok(json!({"return": r.return_amount.to_string(), "spread": r.spread_amount.to_string(), "commission": r.commission_amount.to_string()}))
                } else {
                    let r: haloswap::pair::ReverseSimulationResponse = self.app.wrap().query_wasm_smart(p.contract_addr.clone(), &PairQueryMsg::ReverseSimulation { ask_asset: a }).map_err(|e| e.to_string())?;
                    Ok(json!({"offer": r.offer_amount.to_string(), "spread": r.spread_amount.to_string(), "commission": r.commission_amount.to_string()}))
                }
            }
            "router_swap" | "router_simulate" | "router_reverse_simulate" => {
                let ops: Vec<SwapOperation> = st["route"].as_array().unwrap().iter().map(|h| SwapOperation::HaloSwap { offer_asset_info: self.asset_info(&h[0]), ask_asset_info: self.asset_info(&h[1]) }).collect();
                let amount = u(&st["amount"]);
                if op == "router_simulate" {
                    let r: haloswap::router::SimulateSwapOperationsResponse = self.app.wrap().query_wasm_smart(self.router.clone(), &RouterQueryMsg::SimulateSwapOperations { offer_amount: amount, operations: ops.clone() }).map_err(|e| e.to_string())?;
                    return Ok(json!({"amount": r.amount.to_string(), "composed": self.compose_quotes(&ops, amount, false)}));
                }
                if op == "router_reverse_simulate" {
                    let r: haloswap::router::SimulateSwapOperationsResponse = self.app.wrap().query_wasm_smart(self.router.clone(), &RouterQueryMsg::ReverseSimulateSwapOperations { ask_amount: amount, operations: ops.clone() }).map_err(|e| e.to_string())?;
                    return Ok(json!({"amount": r.amount.to_string(), "composed": self.compose_quotes(&ops, amount, true)}));
                }
                let min = if st["minimum_receive"].is_null() { None } else { Some(u(&st["minimum_receive"])) };
                let to = opt_s(&st["to"]);
                let first = match &ops.get(0) { Some(SwapOperation::HaloSwap { offer_asset_info, .. }) => Some(offer_asset_info.clone()), None => None };
                let first = if let Some(e) = st.get("entry") { Some(self.asset_info(e)) } else { first };
                let res = match first {
                    Some(AssetInfo::Token { contract_addr }) => {
                        let hook = RouterHookMsg::ExecuteSwapOperations { operations: ops, minimum_receive: min, to };
                        self.app.execute_contract(sender, Addr::unchecked(contract_addr), &Cw20ExecuteMsg::Send { contract: self.router.to_string(), amount, msg: to_binary(&hook).unwrap() }, &[])
                    }
                    Some(AssetInfo::NativeToken { denom }) => {
                        let funds = if amount.is_zero() { vec![] } else { vec![Coin { denom, amount }] };
                        self.app.execute_contract(sender, self.router.clone(), &RouterExecuteMsg::ExecuteSwapOperations { operations: ops, minimum_receive: min, to }, &funds)
                    }
                    None => self.app.execute_contract(sender, self.router.clone(), &RouterExecuteMsg::ExecuteSwapOperations { operations: ops, minimum_receive: min, to }, &[]),
                };
                res.map_err(|e| format!("{:#}", e))?;
                Ok(json!({}))
            }
            "add_native_decimals" => {
                let denom = s(&st["denom"]);
                let funds = st.get("funds").map(Self::funds_of).unwrap_or_default();
                self.app.execute_contract(sender, self.factory.clone(), &FactoryExecuteMsg::AddNativeTokenDecimals { denom, decimals: st["decimals"].as_u64().unwrap() as u8 }, &funds).map_err(|e| format!("{:#}", e))?;
                Ok(json!({}))
            }
            "query_native_decimals" => {
                let r: haloswap::factory::NativeTokenDecimalsResponse = self.app.wrap().query_wasm_smart(self.factory.clone(), &FactoryQueryMsg::NativeTokenDecimals { denom: s(&st["denom"]) }).map_err(|e| e.to_string())?;
                Ok(json!({"decimals": r.decimals}))
            }
            "query_pair" => {
                let infos = [self.asset_info(&st["assets"][0]), self.asset_info(&st["assets"][1])];
                let r: PairInfo = self.app.wrap().query_wasm_smart(self.factory.clone(), &FactoryQueryMsg::Pair { asset_infos: infos }).map_err(|e| e.to_string())?;
                let own: PairInfo = self.app.wrap().query_wasm_smart(r.contract_addr.clone(), &PairQueryMsg::Pair {}).map_err(|e| e.to_string())?;
                Ok(json!({"factory": serde_json::to_value(&r).unwrap(), "own": serde_json::to_value(&own).unwrap()}))
            }
            "query_pairs" => {
                let start_after = if st["start_after"].is_null() { None } else { Some([self.asset_info(&st["start_after"][0]), self.asset_info(&st["start_after"][1])]) };
                let limit = st["limit"].as_u64().map(|x| x as u32);
                let r: haloswap::factory::PairsResponse = self.app.wrap().query_wasm_smart(self.factory.clone(), &FactoryQueryMsg::Pairs { start_after, limit }).map_err(|e| e.to_string())?;
                Ok(json!({"pairs": r.pairs.iter().map(|p| json!({"addr": p.contract_addr, "assets": serde_json::to_value(&p.asset_infos).unwrap()})).collect::<Vec<_>>()}))
            }
            "walk_pairs" => {
                // C19: walk the listing page by page, each time continuing after the last pair returned; stop on an empty page
                let limit = st["limit"].as_u64().map(|x| x as u32);
                let mut start_after: Option<[AssetInfo; 2]> = None;
                let mut pages: Vec<Value> = vec![];
                for _ in 0..400 {
                    let r: haloswap::factory::PairsResponse = self.app.wrap().query_wasm_smart(self.factory.clone(), &FactoryQueryMsg::Pairs { start_after: start_after.clone(), limit }).map_err(|e| e.to_string())?;
                    if r.pairs.is_empty() { break; }
                    start_after = Some(r.pairs.last().unwrap().asset_infos.clone());
                    pages.push(json!(r.pairs.iter().map(|p| p.contract_addr.clone()).collect::<Vec<_>>()));
                }
                Ok(json!({"pages": pages}))
            }
            "exec_raw" => {
                // arbitrary JSON message to a named contract: "factory" | "router" | "pair<i>" | token name | address
                let target = s(&st["contract"]);
                let addr = if target == "factory" { self.factory.clone() } else if target == "router" { self.router.clone() }
                    else if let Some(i) = target.strip_prefix("pair") { Addr::unchecked(self.pairs[i.parse::<usize>().unwrap()].contract_addr.clone()) }
                    else if let Some(i) = target.strip_prefix("lp") { Addr::unchecked(self.pairs[i.parse::<usize>().unwrap()].liquidity_token.clone()) }
                    else if let Some(a) = self.tokens.get(&target) { a.clone() } else { Addr::unchecked(target) };
                let funds = st.get("funds").map(Self::funds_of).unwrap_or_default();
                let msg: Value = self.subst(&st["msg"]);
                let raw = cosmwasm_std::Binary::from(serde_json::to_vec(&msg).unwrap());
                self.app.execute(sender, cosmwasm_std::CosmosMsg::Wasm(cosmwasm_std::WasmMsg::Execute { contract_addr: addr.to_string(), msg: raw, funds })).map_err(|e| format!("{:#}", e))?;
                Ok(json!({}))
            }
            _ => Err(format!("unknown op {}", op)),
        }
    }

    // C12: the hop-by-hop composition of the PAIR queries for a route (forward: first hop to last; reverse: last hop to first),
    // each pair looked up through the factory exactly as a client would; Null when a lookup or a pair query fails
    fn compose_quotes(&self, ops: &[SwapOperation], amount: Uint128, reverse: bool) -> Value {
        let mut amt = amount;
        let idx: Vec<usize> = if reverse { (0..ops.len()).rev().collect() } else { (0..ops.len()).collect() };
        for i in idx {
            let SwapOperation::HaloSwap { offer_asset_info, ask_asset_info } = ops[i].clone();
            let pi: Result<PairInfo, _> = self.app.wrap().query_wasm_smart(self.factory.clone(), &FactoryQueryMsg::Pair { asset_infos: [offer_asset_info.clone(), ask_asset_info.clone()] });
            let pi = match pi { Ok(p) => p, Err(_) => return Value::Null };
            if reverse {
                let r: Result<haloswap::pair::ReverseSimulationResponse, _> = self.app.wrap().query_wasm_smart(pi.contract_addr.clone(), &PairQueryMsg::ReverseSimulation { ask_asset: Asset { info: ask_asset_info, amount: amt } });
                match r { Ok(x) => amt = x.offer_amount, Err(_) => return Value::Null }
            } else {
                let r: Result<haloswap::pair::SimulationResponse, _> = self.app.wrap().query_wasm_smart(pi.contract_addr.clone(), &PairQueryMsg::Simulation { offer_asset: Asset { info: offer_asset_info, amount: amt } });
                match r { Ok(x) => amt = x.return_amount, Err(_) => return Value::Null }
            }
        }
        json!(amt.to_string())
    }

    // replace "$pair0" / "$router" / "$factory" / "$tok:A" / "$lp0" placeholders inside raw JSON messages
    fn subst(&self, v: &Value) -> Value {
        match v {
            Value::String(x) => {
                if x == "$router" { return json!(self.router.to_string()); }
                if x == "$factory" { return json!(self.factory.to_string()); }
                if let Some(i) = x.strip_prefix("$pair") { return json!(self.pairs[i.parse::<usize>().unwrap()].contract_addr); }
                if let Some(i) = x.strip_prefix("$lp") { return json!(self.pairs[i.parse::<usize>().unwrap()].liquidity_token); }
                if let Some(t) = x.strip_prefix("$tok:") { return json!(self.tokens.get(t).map(|a| a.to_string()).unwrap_or(t.to_string())); }
                if let Some(b) = x.strip_prefix("$b64:") { let inner: Value = serde_json::from_str(b).unwrap(); return json!(cosmwasm_std::Binary::from(serde_json::to_vec(&self.subst(&inner)).unwrap())); }
                v.clone()
            }
            Value::Array(a) => Value::Array(a.iter().map(|x| self.subst(x)).collect()),
            Value::Object(m) => Value::Object(m.iter().map(|(k, x)| (k.clone(), self.subst(x))).collect()),
            _ => v.clone(),
        }
    }
}

pub fn build(case: &Value) -> World {
    let admin = Addr::unchecked("admin");
    let natives = case.get("natives").cloned().unwrap_or(json!({}));
    let app = AppBuilder::new().build(|router, _, storage| {
        if let Some(m) = natives.as_object() {
            for (who, coins) in m {
                let cs: Vec<Coin> = coins.as_object().unwrap().iter().map(|(d, a)| Coin { denom: d.clone(), amount: u(a) }).collect();
                router.bank.init_balance(storage, &Addr::unchecked(who.clone()), cs).unwrap();
            }
        }
    });
    let mut w = World { app, admin: admin.clone(), factory: Addr::unchecked(""), router: Addr::unchecked(""), tokens: BTreeMap::new(), pairs: vec![], watch: vec![] };
    let token_id = w.app.store_code(token_code());
    let pair_id = w.app.store_code(pair_code());
    let factory_id = w.app.store_code(factory_code());
    let router_id = w.app.store_code(router_code());
    w.factory = w.app.instantiate_contract(factory_id, admin.clone(), &FactoryInstantiateMsg { pair_code_id: pair_id, token_code_id: token_id }, &[], "factory", None).unwrap();
    w.router = w.app.instantiate_contract(router_id, admin.clone(), &RouterInstantiateMsg { halo_factory: w.factory.to_string() }, &[], "router", None).unwrap();
    if let Some(ts) = case.get("tokens").and_then(|t| t.as_array()) {
        for t in ts {
            let name = s(&t["name"]);
            let bals: Vec<Cw20Coin> = t["balances"].as_object().map(|m| m.iter().map(|(a, v)| Cw20Coin { address: a.clone(), amount: u(v) }).collect()).unwrap_or_default();
            let addr = w.app.instantiate_contract(token_id, admin.clone(), &cw20_base::msg::InstantiateMsg {
                name: format!("token{}", name), symbol: "TOK".into(), decimals: t["decimals"].as_u64().unwrap_or(6) as u8,
                initial_balances: bals, mint: Some(MinterResponse { minter: admin.to_string(), cap: None }), marketing: None }, &[], name.clone(), None).unwrap();
            w.tokens.insert(name, addr);
        }
    }
    if let Some(nd) = case.get("native_decimals").and_then(|t| t.as_object()) {
        for (denom, d) in nd {
            // the factory must hold a positive balance of the denom to register it
            w.app.send_tokens(admin.clone(), w.factory.clone(), &[Coin { denom: denom.clone(), amount: Uint128::new(1) }]).expect("admin needs 1 unit of each native denom");
            w.app.execute_contract(admin.clone(), w.factory.clone(), &FactoryExecuteMsg::AddNativeTokenDecimals { denom: denom.clone(), decimals: d.as_u64().unwrap() as u8 }, &[]).unwrap();
        }
    }
    if let Some(ws) = case.get("watch").and_then(|t| t.as_array()) { w.watch = ws.iter().map(s).collect(); }
    if let Some(ps) = case.get("pairs").and_then(|t| t.as_array()) { for p in ps { w.create_pair(p).expect("pair creation in world setup"); } }
    w
}

pub fn run_case(kind: &str, case: &Value) -> Value {
    if kind != "scenario" { return json!({"error": format!("unknown case kind {}", kind)}); }
    let mut w = build(case);
    let mut out = vec![];
    let first = w.snapshot();
    for st in case["steps"].as_array().cloned().unwrap_or_default() {
        let res = match std::panic::catch_unwind(std::panic::AssertUnwindSafe(|| w.step(&st))) {
            Ok(r) => r,
            Err(e) => {
                let msg = if let Some(s) = e.downcast_ref::<String>() { s.clone() } else if let Some(s) = e.downcast_ref::<&str>() { s.to_string() } else { "panic".to_string() };
                Err(format!("panic: {}", msg))
            }
        };
        let snap = w.snapshot();
        match res {
            Ok(v) => out.push(json!({"ok": true, "res": v, "snap": snap})),
            Err(e) => out.push(json!({"ok": false, "err": e, "snap": snap})),
        }
    }
    json!({"init": first, "steps": out, "tokens": w.tokens.iter().map(|(k, v)| (k.clone(), json!(v.to_string()))).collect::<serde_json::Map<_, _>>() })
}
