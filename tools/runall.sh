#!/bin/bash
# run every claimed check (quick by default) on the current tree, in parallel; print one line each
TIER=${1:-quick}
cd /verif
IDS=$(python3 -c "import json;print(' '.join(c['property_id'] for c in json.load(open('MANIFEST.json'))['checks']))")
mkdir -p .work/logs
for p in $IDS; do ( ./check $p $TIER > .work/logs/$p.$TIER.log 2>&1; echo "$p exit=$? $(tail -1 .work/logs/$p.$TIER.log)" ) & 
  while [ $(jobs -r | wc -l) -ge 4 ]; do sleep 1; done
done; wait
