#!/usr/bin/env python3
"""Parallel seed matrix.  Each worker gets its OWN scratch git worktree of /repo and its own copy of the /verif machinery
(under /tmp/mw/<i>, removed at the end), so neither /repo nor /verif/evidence is touched while the matrix runs.
For every kept seed: apply its patch to the worker's worktree, run the quick check of the property it breaks there, undo.
usage: seed_matrix_par.py [-j N] [seed ids...]"""
import json, os, shutil, subprocess, sys, time, threading, queue
ROOT = '/verif'
BASE = '/tmp/mw_seed_%d' % os.getpid()
args = sys.argv[1:]
J = 5
if args and args[0] == '-j':
    J = int(args[1]); args = args[2:]
seeds = sorted(d for d in os.listdir(ROOT + '/seeded') if os.path.isdir(ROOT + '/seeded/' + d))
if args:
    seeds = [s for s in seeds if s in args]
res = {}
if os.path.exists(ROOT + '/seeded/RESULTS.json'):
    res = json.load(open(ROOT + '/seeded/RESULTS.json'))
lock = threading.Lock()
q = queue.Queue()
for s in seeds:
    q.put(s)


def sh(*a, **kw):
    return subprocess.run(a, stdout=subprocess.PIPE, stderr=subprocess.STDOUT, text=True, **kw)


def setup(i):
    w = '%s/%d' % (BASE, i)
    shutil.rmtree(w, ignore_errors=True)
    os.makedirs(w)
    sh('git', '-C', '/repo', 'worktree', 'add', '--detach', w + '/repo', 'HEAD')
    v = w + '/verif'
    os.makedirs(v + '/.work')
    for d in ('vf', 'units', 'replay', 'replays_known', 'tools', 'corpus'):
        if os.path.isdir(ROOT + '/' + d):
            shutil.copytree(ROOT + '/' + d, v + '/' + d, ignore=shutil.ignore_patterns('__pycache__', 'target'))
    for f in ('check', 'known_findings.json', 'properties.jsonl'):
        shutil.copy(ROOT + '/' + f, v + '/' + f)
    ct = open(v + '/replay/Cargo.toml').read().replace('"/repo/', '"%s/repo/' % w)
    open(v + '/replay/Cargo.toml', 'w').write(ct)
    # reuse the compiled dependencies of the main replay target
    if os.path.isdir(ROOT + '/.work/replay-target'):
        shutil.copytree(ROOT + '/.work/replay-target', v + '/.work/replay-target')
    return w


def worker(i):
    w = setup(i)
    env = dict(os.environ, VERIF_REPO=w + '/repo')
    while True:
        try:
            s = q.get_nowait()
        except queue.Empty:
            break
        meta = json.load(open('%s/seeded/%s/meta.json' % (ROOT, s)))
        pid = meta['breaks_property']
        if sh('git', '-C', w + '/repo', 'apply', '%s/seeded/%s/patch.diff' % (ROOT, s)).returncode != 0:
            with lock:
                res[s] = dict(property=pid, outcome='patch does not apply')
            continue
        t0 = time.time()
        p = sh(w + '/verif/check', pid, 'quick', cwd=w + '/verif', env=env)
        sh('git', '-C', w + '/repo', 'checkout', '--', '.')
        # harvest the counterexamples into the regression corpus (deduplicated, at most 40 per property)
        harvested = []
        rdir = w + '/verif/replays'
        if p.returncode == 1 and os.path.isdir(rdir):
            for fn in os.listdir(rdir):
                try:
                    ce = json.load(open(rdir + '/' + fn)).get('counterexample')
                except Exception:
                    ce = None
                if ce and ce.get('replay_kind') != 'pair_key' and '[regression corpus]' not in ce.get('why', ''):
                    harvested.append(dict(case=ce['case'], replay_kind=ce['replay_kind'], from_seed=s))
            shutil.rmtree(rdir, ignore_errors=True)
        lines = [l for l in p.stdout.split('\n') if l.startswith(('VIOLATION', 'FAILED-OBLIGATION', 'UNDECIDED'))]
        obl = [l.split('obligation=')[1][:110] for l in lines if l.startswith('FAILED-OBLIGATION')]
        how = 'not detected'
        if p.returncode == 1:
            how = 'concrete search on the real code (verifier undecided)' if any('undecided:' in o for o in obl) else 'verifier: obligation rejected'
            if not any('undecided:' in o for o in obl) and any('no-failing-input-found' not in l for l in lines if l.startswith('VIOLATION')):
                how += ' + counterexample replayed'
        r = dict(property=pid, exit=p.returncode, detected=(p.returncode == 1), how=how, obligations=obl[:4], wall_s=round(time.time() - t0, 1))
        meta['detected_by'] = dict(check=pid, how=how, obligations=obl[:4])
        with lock:
            res[s] = r
            if harvested and os.environ.get('HARVEST'):
                os.makedirs(ROOT + '/corpus', exist_ok=True)
                cp = '%s/corpus/%s.jsonl' % (ROOT, pid)
                have = [l.strip() for l in open(cp)] if os.path.exists(cp) else []
                keys = {json.dumps(json.loads(l)['case'], sort_keys=True) for l in have if l}
                for h in harvested:
                    kk = json.dumps(h['case'], sort_keys=True)
                    if kk not in keys and len(have) < 40:
                        have.append(json.dumps(h, sort_keys=True)); keys.add(kk)
                open(cp, 'w').write('\n'.join(have) + '\n')
            json.dump(meta, open('%s/seeded/%s/meta.json' % (ROOT, s), 'w'), indent=1)
            json.dump(res, open(ROOT + '/seeded/RESULTS.json', 'w'), indent=1)
            print(s, r['exit'], how, obl[:2], flush=True)
            if p.returncode != 1:
                print('   ', [l[:200] for l in lines][:3], flush=True)
    sh('git', '-C', '/repo', 'worktree', 'remove', '--force', w + '/repo')
    shutil.rmtree(w, ignore_errors=True)


ths = [threading.Thread(target=worker, args=(i,)) for i in range(J)]
for t in ths:
    t.start()
for t in ths:
    t.join()
sh('git', '-C', '/repo', 'worktree', 'prune')
shutil.rmtree(BASE, ignore_errors=True)
nd = [s for s in seeds if not res.get(s, {}).get('detected')]
print('done: %d seeds, %d detected; not detected: %s' % (len(seeds), len(seeds) - len(nd), nd))
