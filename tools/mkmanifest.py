#!/usr/bin/env python3
"""Regenerate MANIFEST.json from vf/props.py (claimed checks) and tools/not_applicable.json."""
import json, os, sys
ROOT = os.path.dirname(os.path.dirname(os.path.abspath(__file__)))
sys.path.insert(0, ROOT)
from vf import props
ids = [json.loads(l)['id'] for l in open(os.path.join(ROOT, 'properties.jsonl'))]
na = json.load(open(os.path.join(ROOT, 'tools', 'not_applicable.json')))
checks = []
for pid in ids:
    if pid not in props.PROPS:
        continue
    P = props.PROPS[pid]
    checks.append(dict(
        property_id=pid,
        quick_cmd='./check %s quick' % pid,
        thorough_cmd='./check %s thorough' % pid,
        evidence_file='evidence/%s.json' % pid,
        replay_cmd_template='./check --replay {path}',
        engine='verus-contracts',
        level_claimed=dict(category='proof', text=P['explanation'], design_ref='DESIGN.md section 4 / ' + pid),
        level_note='; '.join(P.get('assumptions', []) + ['trusted base: see evidence coverage.trusted_base']),
        technique=P.get('technique', 'contract-based deductive verification: Verus contracts spliced onto function text extracted from /repo on every run; every obligation discharged by Z3 for all inputs'),
    ))
m = dict(
    version=1,
    setup_cmd='cd /verif/replay && CARGO_TARGET_DIR=/verif/.work/replay-target CARGO_NET_OFFLINE=true cargo build --offline -q; true',
    hooks=dict(guard='halotrade_zone_halotrade_contracts_verif',
               enable='no hooks are needed: checks read /repo source text (extraction) and link /repo crates through their public API (replay crate)',
               baseline_off_cmd='cd /repo && cargo test --workspace --no-fail-fast --offline',
               source_commits=[], add_only=True),
    engines=[dict(name='verus-contracts', path='vf/', serves_properties=[c['property_id'] for c in checks],
                  kind_free_text='Verus 0.2026.09.13 single-file verification of units generated from templates in units/ with function bodies extracted from /repo on every run'),
             dict(name='replay', path='replay/', serves_properties=[c['property_id'] for c in checks],
                  kind_free_text='plain cargo crate with path dependencies on /repo: replays witnesses / searches for a failing input after a rejected obligation; never decides')],
    checks=checks,
    notes='exit 0 held; exit 1 + VIOLATION line; exit 2 undecided (anchor lost / unsupported construct / solver limit), never used on the unchanged tree',
    not_applicable=[dict(property_id=k, reason=v) for k, v in na.items() if k not in props.PROPS],
)
json.dump(m, open(os.path.join(ROOT, 'MANIFEST.json'), 'w'), indent=1)
print('claimed:', [c['property_id'] for c in checks]); print('n/a:', [x['property_id'] for x in m['not_applicable']])
