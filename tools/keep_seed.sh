#!/bin/bash
# usage: keep_seed.sh <seed id> <property> <mutant dir> "<needs>" "<confirm summary>"
set -e
ID=$1; PROP=$2; M=$3; NEEDS=$4; RAN=$5
D=/verif/seeded/$ID
mkdir -p $D/demo
cp $M/patch.diff $D/patch.diff
cp $M/demo.diff $D/demo/demo.diff
for f in $M/*.rs; do [ -f "$f" ] && cp $f $D/demo/; done
[ -f $M/notes.md ] && cp $M/notes.md $D/notes.md
python3 - "$ID" "$PROP" "$NEEDS" "$RAN" <<'PY'
import json,sys
i,p,n,r=sys.argv[1:5]
json.dump(dict(id=i,breaks_property=p,needs_to_manifest=n,confirmed_by=r,source='independent sub-agent given only the property text and a scratch worktree',detected_by=None),open('/verif/seeded/%s/meta.json'%i,'w'),indent=1)
PY
echo kept $D
