#!/usr/bin/env python3
"""Apply every kept seeded change to /repo in turn, run the quick check of the property it breaks, undo; record the outcome.
Evidence / replays are saved and restored so that the committed ones always come from the unchanged tree."""
import json, os, shutil, subprocess, sys, tempfile, time
ROOT = '/verif'
seeds = sorted(d for d in os.listdir(ROOT + '/seeded') if os.path.isdir(ROOT + '/seeded/' + d))
only = sys.argv[1:]
res = {}
if os.path.exists(ROOT + '/seeded/RESULTS.json'):
    res = json.load(open(ROOT + '/seeded/RESULTS.json'))
save = tempfile.mkdtemp(dir=ROOT + '/.work')
shutil.copytree(ROOT + '/evidence', save + '/evidence')
if os.path.isdir(ROOT + '/replays'):
    shutil.copytree(ROOT + '/replays', save + '/replays')
try:
    for s in seeds:
        if only and s not in only:
            continue
        meta = json.load(open('%s/seeded/%s/meta.json' % (ROOT, s)))
        pid = meta['breaks_property']
        if subprocess.run(['git', '-C', '/repo', 'apply', '%s/seeded/%s/patch.diff' % (ROOT, s)]).returncode != 0:
            res[s] = dict(property=pid, outcome='patch does not apply')
            continue
        t0 = time.time()
        p = subprocess.run([ROOT + '/check', pid, 'quick'], cwd=ROOT, stdout=subprocess.PIPE, stderr=subprocess.STDOUT, text=True)
        subprocess.run(['git', '-C', '/repo', 'checkout', '--', '.'])
        lines = [l for l in p.stdout.split('\n') if l.startswith(('VIOLATION', 'FAILED-OBLIGATION', 'UNDECIDED'))]
        obl = [l.split('obligation=')[1][:110] for l in lines if l.startswith('FAILED-OBLIGATION')]
        how = 'not detected'
        if p.returncode == 1:
            how = 'concrete search on the real code (verifier undecided)' if any('undecided:' in o for o in obl) else 'verifier: obligation rejected'
            if not any('undecided:' in o for o in obl) and any('no-failing-input-found' not in l for l in lines if l.startswith('VIOLATION')):
                how += ' + counterexample replayed'
        res[s] = dict(property=pid, exit=p.returncode, detected=(p.returncode == 1), how=how, obligations=obl[:4], wall_s=round(time.time() - t0, 1))
        meta['detected_by'] = dict(check=pid, how=how, obligations=obl[:4])
        json.dump(meta, open('%s/seeded/%s/meta.json' % (ROOT, s), 'w'), indent=1)
        print(s, res[s]['exit'], how, obl[:2], flush=True)
        json.dump(res, open(ROOT + '/seeded/RESULTS.json', 'w'), indent=1)
finally:
    subprocess.run(['git', '-C', '/repo', 'checkout', '--', '.'])
    shutil.rmtree(ROOT + '/evidence'); shutil.move(save + '/evidence', ROOT + '/evidence')
    if os.path.isdir(save + '/replays'):
        shutil.rmtree(ROOT + '/replays', ignore_errors=True); shutil.move(save + '/replays', ROOT + '/replays')
    shutil.rmtree(save, ignore_errors=True)
