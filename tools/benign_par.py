#!/usr/bin/env python3
"""Behaviour-preserving edits must NOT alarm.  For every patch in selftest/benign and every claimed check: apply the patch to a
worker's own scratch worktree of /repo (under /tmp/mw, removed at the end), run the quick check from the worker's copy of the machinery,
expect exit 0.  /repo and /verif/evidence are not touched.  usage: benign_par.py [-j N] [patch name prefixes...]"""
import json, os, shutil, subprocess, sys, threading, queue, glob
ROOT = '/verif'
BASE = '/tmp/mw_benign_%d' % os.getpid()
args = sys.argv[1:]
J = 6
if args and args[0] == '-j':
    J = int(args[1]); args = args[2:]
patches = sorted(glob.glob(ROOT + '/selftest/benign/*.diff'))
if args:
    patches = [p for p in patches if any(os.path.basename(p).startswith(a) for a in args)]
ids = [c['property_id'] for c in json.load(open(ROOT + '/MANIFEST.json'))['checks']]
if os.environ.get('BENIGN_PROPS'):
    # a covering subset (every unit and mode at least once) for a quick pass
    ids = [i for i in ids if i in os.environ['BENIGN_PROPS'].split(',')]
q = queue.Queue()
for p in patches:
    for i in ids:
        q.put((p, i))
lock = threading.Lock()
bad = []


def sh(*a, **kw):
    return subprocess.run(a, stdout=subprocess.PIPE, stderr=subprocess.STDOUT, text=True, **kw)


def setup(i):
    w = '%s/%d' % (BASE, i)
    shutil.rmtree(w, ignore_errors=True)
    os.makedirs(w)
    sh('git', '-C', '/repo', 'worktree', 'add', '--detach', w + '/repo', 'HEAD')
    v = w + '/verif'
    os.makedirs(v + '/.work')
    for d in ('vf', 'units', 'replay', 'replays_known', 'tools', 'corpus'):
        if not os.path.isdir(ROOT + '/' + d):
            continue
        shutil.copytree(ROOT + '/' + d, v + '/' + d, ignore=shutil.ignore_patterns('__pycache__', 'target'))
    for f in ('check', 'known_findings.json', 'properties.jsonl'):
        shutil.copy(ROOT + '/' + f, v + '/' + f)
    ct = open(v + '/replay/Cargo.toml').read().replace('"/repo/', '"%s/repo/' % w)
    open(v + '/replay/Cargo.toml', 'w').write(ct)
    if os.path.isdir(ROOT + '/.work/replay-target'):
        shutil.copytree(ROOT + '/.work/replay-target', v + '/.work/replay-target')
    return w


def worker(i):
    w = setup(i)
    env = dict(os.environ, VERIF_REPO=w + '/repo')
    while True:
        try:
            patch, pid = q.get_nowait()
        except queue.Empty:
            break
        if sh('git', '-C', w + '/repo', 'apply', patch).returncode != 0:
            with lock:
                bad.append((os.path.basename(patch), pid, 'patch does not apply'))
            continue
        p = sh(w + '/verif/check', pid, 'quick', cwd=w + '/verif', env=env)
        sh('git', '-C', w + '/repo', 'checkout', '--', '.')
        with lock:
            if p.returncode != 0:
                lines = [l[:220] for l in p.stdout.split('\n') if l.startswith(('VIOLATION', 'FAILED-OBLIGATION', 'UNDECIDED'))]
                bad.append((os.path.basename(patch), pid, 'exit %d' % p.returncode, lines[:3]))
                print('NOT QUIET', os.path.basename(patch), pid, p.returncode, lines[:2], flush=True)
    sh('git', '-C', '/repo', 'worktree', 'remove', '--force', w + '/repo')
    shutil.rmtree(w, ignore_errors=True)


ths = [threading.Thread(target=worker, args=(i,)) for i in range(J)]
for t in ths:
    t.start()
for t in ths:
    t.join()
sh('git', '-C', '/repo', 'worktree', 'prune')
shutil.rmtree(BASE, ignore_errors=True)
print('benign: %d patches x %d checks, %d not quiet' % (len(patches), len(ids), len(bad)))
json.dump(dict(patches=[os.path.basename(p) for p in patches], checks=ids, not_quiet=bad), open(ROOT + '/selftest/BENIGN_RESULTS.json', 'w'), indent=1)
sys.exit(1 if bad else 0)
