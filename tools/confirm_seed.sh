#!/bin/bash
# usage: confirm_seed.sh <worktree> <mutant dir>   -- confirms a seeded change in its scratch worktree
# 1. suite passes with the patch  2. demo fails with the patch  3. demo passes without it
set -u
WT=$1; M=$2
export CARGO_TARGET_DIR=$WT/target CARGO_NET_OFFLINE=true
cd $WT || exit 2
git checkout -q -- . ; git clean -fdq -- contracts packages 2>/dev/null
git apply $M/patch.diff || { echo "PATCH DOES NOT APPLY"; exit 2; }
SUITE=$(cargo test --workspace --no-fail-fast --offline 2>&1 | grep -E "^test result" | awk '{p+=$4; f+=$6} END {print p" passed "f" failed"}')
echo "suite with patch: $SUITE"
git apply $M/demo.diff || { echo "DEMO DOES NOT APPLY"; git checkout -q -- .; exit 2; }
DEMOFILE=$(grep -E "^\+\+\+ b/" $M/demo.diff | head -1 | sed 's/+++ b\///')
CRATE_DIR=$(echo $DEMOFILE | sed -E 's#/(tests|src)/.*##')
PKG=$(grep -m1 '^name' $CRATE_DIR/Cargo.toml | sed -E 's/.*"(.*)".*/\1/')
TNAME=$(basename $DEMOFILE .rs)
WITH=$(cargo test -p $PKG --test $TNAME --offline 2>&1 | grep -E "^test result" | head -1)
echo "demo with patch: $WITH"
git apply -R $M/patch.diff
WITHOUT=$(cargo test -p $PKG --test $TNAME --offline 2>&1 | grep -E "^test result" | head -1)
echo "demo without patch: $WITHOUT"
git checkout -q -- . ; git clean -fdq -- contracts packages 2>/dev/null
echo "pkg=$PKG test=$TNAME"
