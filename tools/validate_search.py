#!/usr/bin/env python3
"""Run every concrete-search harness at a large budget on the CURRENT tree and list every predicate hit.
On the unchanged tree any hit is a bug of the harness (or a genuine defect): used to shake out false positives."""
import sys, random, collections, json
sys.path.insert(0, '/verif')
from vf import refute, scen
n = int(sys.argv[1]) if len(sys.argv) > 1 else 600
seed = int(sys.argv[2]) if len(sys.argv) > 2 else 1
rng = random.Random(seed)
tot = collections.Counter()
def run(gen, chk, two=False, label=''):
    for b in range(0, n, 100):
        cases = [gen(rng) for _ in range(100)]
        outs = refute.run_cases(cases)
        if two:
            cases = [scen.finalize_route_case(c, o.get('out', {})) if o.get('ok') else c for c, o in zip(cases, outs)]
            outs = refute.run_cases(cases)
        for c, o in zip(cases, outs):
            if not o.get('ok'):
                tot[label + ':PANIC ' + o.get('panic', '')[:80]] += 1
                continue
            for v in chk(c, o['out']):
                if v[0] in ('C01', 'C03') and 'window' in v[1]:
                    continue
                tot[label + ':' + v[0]] += 1
                if tot[label + ':' + v[0]] <= 2:
                    print(label, v, json.dumps(c['steps'][v[2]])[:300])
run(scen.gen_scenario, scen.check_scenario, label='pair')
run(scen.gen_registry_scenario, scen.check_registry_scenario, label='registry')
run(scen.gen_auth_scenario, scen.check_auth_scenario, label='auth')
run(scen.gen_route_scenario, scen.check_route_scenario, True, label='route')
run(scen.gen_pages_scenario, scen.check_pages_scenario, label='pages')
run(scen.gen_pages_scenario, scen.check_registry_scenario, label='pages-registry')
for pid in ('C01', 'C06', 'C08', 'C10', 'C12', 'C13', 'C15', 'C18'):
    cs = refute.GENS[pid](rng, 20000)
    outs = refute.run_cases(cs)
    bad = [(c, refute.PREDS[pid](c, o)) for c, o in zip(cs, outs) if refute.PREDS[pid](c, o)]
    tot['unit:' + pid] += len(bad)
    for b in bad[:2]:
        print('unit', pid, b)
cs = scen.gen_key_cases(rng, 3000)
print('key:', scen.check_key_cases(cs, refute.run_cases(cs)))
print(dict(tot))

# regression corpus: no entry may violate anything on the unchanged tree
import os
for f in sorted(os.listdir('/verif/corpus')) if os.path.isdir('/verif/corpus') else []:
    pid = f.split('.')[0]
    hit = refute.search_corpus(pid)
    print('corpus', pid, len(refute.corpus_cases(pid)), 'entries:', 'HIT ' + hit['why'] if hit else 'quiet')
