#!/usr/bin/env python3
"""Development helper: generate one unit from the tree named by VERIF_REPO (default /repo), run Verus, list failures.
usage: dev_unit.py <unit.rs> <A|B> [module [function]]     (work files go to /verif/.work/dev)"""
import os, sys
sys.path.insert(0, '/verif')
from vf import run
unit, mode = sys.argv[1], sys.argv[2]
only = None
if len(sys.argv) > 3:
    only = (sys.argv[3], sys.argv[4:5])
r = run.run_unit(unit, mode, '/verif/.work/dev', only=only)
print('verified', r.verified, 'errors', r.errors, 'wall %.1fs' % r.wall_s, 'tool_error', r.tool_error)
for f in r.failures:
    print('--', f.kind, f.name(), 'line', f.line)
    print(f.rendered[:1500])
