#!/bin/bash
# behaviour-preserving edits must NOT alarm: apply each patch in selftest/benign to /repo, check it still compiles and the suite passes
# (optional, slow: SUITE=1), run the given checks (default: all claimed) and expect exit 0; undo.
cd /verif
SAVE=$(mktemp -d /verif/.work/save.XXXX); cp -r evidence $SAVE/evidence; cp -r replays $SAVE/replays 2>/dev/null
IDS=${CHECKS:-$(python3 -c "import json;print(' '.join(c['property_id'] for c in json.load(open('MANIFEST.json'))['checks']))")}
for d in selftest/benign/${1:-*}.diff; do
  git -C /repo apply $PWD/$d || { echo "$d does not apply"; continue; }
  if [ -n "$SUITE" ]; then (cd /repo && cargo test --workspace --no-fail-fast --offline 2>&1 | grep -E "^test result" | awk '{p+=$4; f+=$6} END {print "   suite: "p" passed "f" failed"}'); fi
  for p in $IDS; do ( ./check $p quick > .work/logs/benign.$p.log 2>&1; rc=$?; [ $rc -ne 0 ] && echo "   $(basename $d) $p exit=$rc $(grep -E 'FAILED-OBL|UNDECIDED' .work/logs/benign.$p.log | head -2 | cut -c1-200)" ) &
    while [ $(jobs -r | wc -l) -ge 4 ]; do sleep 1; done
  done; wait
  echo "$(basename $d): done"
  git -C /repo checkout -- .
done
rm -rf evidence replays; mv $SAVE/evidence evidence; [ -d $SAVE/replays ] && mv $SAVE/replays replays; rm -rf $SAVE
