#!/bin/bash
# usage: run_seed.sh <seed id> <prop> [<prop>...]  -- apply seeded patch to /repo, run quick checks, undo
ID=$1; shift
cd /repo && git apply /verif/seeded/$ID/patch.diff || { echo "patch does not apply"; exit 2; }
cd /verif
for p in "$@"; do ./check $p quick 2>&1 | grep -E "VIOLATION|UNDECIDED|KNOWN|quick:" | cut -c1-260; echo "  -> exit ${PIPESTATUS[0]}"; done
git -C /repo checkout -- .
git -C /repo status --short | head -3
