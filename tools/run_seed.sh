#!/bin/bash
# usage: run_seed.sh <seed id> <prop> [<prop>...]  -- apply seeded patch to /repo, run quick checks, undo.
# evidence/ and replays/ are saved and restored so that committed evidence always comes from the unchanged tree.
ID=$1; shift
SAVE=$(mktemp -d /verif/.work/save.XXXX)
cp -r /verif/evidence $SAVE/evidence; cp -r /verif/replays $SAVE/replays 2>/dev/null
cd /repo && git apply /verif/seeded/$ID/patch.diff || { echo "patch does not apply"; exit 2; }
cd /verif
for p in "$@"; do ./check $p quick 2>&1 | grep -E "VIOLATION|UNDECIDED|KNOWN|quick:|FAILED-OBL" | cut -c1-260; echo "  -> exit ${PIPESTATUS[0]}"; done
git -C /repo checkout -- .
git -C /repo status --short | head -3
rm -rf /verif/evidence /verif/replays; mv $SAVE/evidence /verif/evidence; [ -d $SAVE/replays ] && mv $SAVE/replays /verif/replays; rm -rf $SAVE
