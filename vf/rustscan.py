"""Minimal Rust lexical scanner: enough to find items and match braces in /repo sources.

It understands line/block comments (nested), string / raw string / byte string literals, char
literals vs. lifetimes.  Nothing here contains repository code; it only locates spans.
"""
import re


class ScanError(Exception):
    pass


def code_mask(src):
    """Return a bytearray m with m[i]==1 iff src[i] is code (not comment / string / char literal)."""
    n = len(src)
    m = bytearray(n)
    i = 0
    while i < n:
        c = src[i]
        if c == '/' and i + 1 < n and src[i + 1] == '/':
            j = src.find('\n', i)
            if j < 0:
                j = n
            i = j
            continue
        if c == '/' and i + 1 < n and src[i + 1] == '*':
            depth = 1
            j = i + 2
            while j < n and depth:
                if src.startswith('/*', j):
                    depth += 1
                    j += 2
                elif src.startswith('*/', j):
                    depth -= 1
                    j += 2
                else:
                    j += 1
            i = j
            continue
        if c == '"' or (c in 'br' and re.match(r'b?r?#*"', src[i:i + 12]) and (i == 0 or not (src[i - 1].isalnum() or src[i - 1] == '_'))):
            mm = re.match(r'(b?)(r?)(#*)"', src[i:i + 12])
            raw = mm.group(2) == 'r'
            hashes = mm.group(3)
            j = i + mm.end()
            if raw:
                endtok = '"' + hashes
                k = src.find(endtok, j)
                if k < 0:
                    raise ScanError('unterminated raw string')
                i = k + len(endtok)
            else:
                while j < n:
                    if src[j] == '\\':
                        j += 2
                    elif src[j] == '"':
                        break
                    else:
                        j += 1
                i = j + 1
            continue
        if c == "'":
            mm = re.match(r"'(\\u\{[0-9a-fA-F_]+\}|\\x[0-9a-fA-F]{2}|\\.|[^\\'])'", src[i:i + 14])
            if mm:
                i += mm.end()
                continue
            # lifetime
            m[i] = 1
            i += 1
            continue
        m[i] = 1
        i += 1
    return m


OPEN = {'{': '}', '(': ')', '[': ']'}
CLOSE = {'}', ')', ']'}


def match_close(src, mask, i):
    """src[i] is an opening bracket (code); return index of its matching close."""
    stack = []
    n = len(src)
    j = i
    while j < n:
        if mask[j]:
            ch = src[j]
            if ch in OPEN:
                stack.append(OPEN[ch])
            elif ch in CLOSE:
                if not stack or stack[-1] != ch:
                    raise ScanError('bracket mismatch at %d' % j)
                stack.pop()
                if not stack:
                    return j
        j += 1
    raise ScanError('unterminated bracket at %d' % i)


def norm_ws(s):
    return re.sub(r'\s+', ' ', s).strip()


def find_code(src, mask, pat, start=0, end=None):
    """Iterate regex matches of pat whose first char is code."""
    end = len(src) if end is None else end
    for mm in re.finditer(pat, src[:end]):
        if mm.start() >= start and mask[mm.start()]:
            yield mm


def leading_attrs_start(src, mask, pos):
    """Walk back from item start `pos` over attributes and doc comments; return new start (line start)."""
    # move to start of line
    ls = src.rfind('\n', 0, pos) + 1
    start = ls
    while start > 0:
        pl = src.rfind('\n', 0, start - 1) + 1
        line = src[pl:start - 1].strip()
        if line.startswith('#[') or line.startswith('///') or line.startswith('//!'):
            start = pl
        elif line.endswith(']') and not line.startswith('#['):
            # possibly tail of a multi-line attribute: search upward for '#[' with balanced brackets
            k = pl
            ok = False
            for _ in range(8):
                k2 = src.rfind('\n', 0, k - 1) + 1 if k > 0 else 0
                l2 = src[k2:k - 1].strip() if k > 0 else ''
                if l2.startswith('#['):
                    ok = True
                    k = k2
                    break
                if k2 == 0:
                    break
                k = k2
            if ok:
                start = k
            else:
                break
        else:
            break
    return start


def body_open(src, mask, pos):
    """From `pos` (start of an item header) find the '{' that opens its body at bracket depth 0."""
    depth = 0
    angle = 0
    j = pos
    n = len(src)
    while j < n:
        if mask[j]:
            ch = src[j]
            if ch in '([':
                depth += 1
            elif ch in ')]':
                depth -= 1
            elif ch == '{' and depth == 0:
                return j
            elif ch == ';' and depth == 0:
                return -1
        j += 1
    raise ScanError('no body found')


def find_impl(src, mask, header):
    """Locate `impl ... {` whose normalized header equals `header`; return (hdr_start, open, close)."""
    want = norm_ws(header)
    hits = []
    for mm in find_code(src, mask, r'(?m)^[ \t]*impl\b'):
        hs = mm.start() + len(mm.group(0)) - 4
        ob = body_open(src, mask, hs)
        if ob < 0:
            continue
        if norm_ws(src[hs:ob]) == want:
            hits.append((hs, ob, match_close(src, mask, ob)))
    if not hits:
        raise ScanError('impl header %r not found' % (header,))
    return hits


def find_fn(src, mask, name, ranges=None):
    """Locate `fn name` inside the given (lo,hi) ranges; return dict(start, sig_start, open, close)."""
    ranges = ranges or [(0, len(src))]
    hits = []
    for lo, hi in ranges:
        hits += _find_fn_in(src, mask, name, lo, hi)
    if len(hits) != 1:
        raise ScanError('fn %r found %d times in range' % (name, len(hits)))
    return hits[0]


def _find_fn_in(src, mask, name, lo, hi):
    hits = []
    for mm in find_code(src, mask, r'\bfn\s+' + re.escape(name) + r'\b', lo, hi):
        # item start: beginning of the line holding visibility/qualifiers
        ls = src.rfind('\n', 0, mm.start()) + 1
        pre = src[ls:mm.start()]
        if not re.fullmatch(r'\s*(pub(\([^)]*\))?\s+)?(const\s+)?(async\s+)?(unsafe\s+)?', pre):
            continue
        ob = body_open(src, mask, mm.start())
        if ob < 0:
            continue
        hits.append(dict(sig_start=ls, open=ob, close=match_close(src, mask, ob),
                         start=leading_attrs_start(src, mask, mm.start())))
    return hits


def find_item(src, mask, kind, name):
    """kind in struct|enum|const|static|type; returns (start_with_attrs, item_start, end_exclusive)."""
    pat = r'(?m)^[ \t]*(pub(\([^)]*\))?\s+)?' + kind + r'\s+' + re.escape(name) + r'\b'
    hits = []
    for mm in find_code(src, mask, pat):
        st = mm.start()
        # find end: either ';' at depth 0 or matching brace (struct/enum)
        j = mm.end()
        depth = 0
        n = len(src)
        end = None
        while j < n:
            if mask[j]:
                ch = src[j]
                if ch in '([':
                    depth += 1
                elif ch in ')]':
                    depth -= 1
                elif ch == '{' and depth == 0 and kind in ('struct', 'enum'):
                    end = match_close(src, mask, j) + 1
                    break
                elif ch == '{':
                    j = match_close(src, mask, j)
                elif ch == ';' and depth == 0:
                    end = j + 1
                    break
            j += 1
        if end is None:
            raise ScanError('unterminated item %s %s' % (kind, name))
        hits.append((leading_attrs_start(src, mask, st), st, end))
    if len(hits) != 1:
        raise ScanError('%s %r found %d times' % (kind, name, len(hits)))
    return hits[0]


def macro_calls(src, mask, name):
    """Yield (start, end_exclusive) of `name!( ... )` invocations (code only)."""
    for mm in find_code(src, mask, r'\b' + re.escape(name) + r'!\s*\('):
        ob = mm.end() - 1
        cl = match_close(src, mask, ob)
        yield mm.start(), cl + 1, ob
