"""Per-property driver: generate units from /repo, run Verus, decide, replay, write evidence."""
import hashlib
import json
import os
import subprocess
import sys
import time

from . import gen, run, props, refute

ROOT = os.path.dirname(os.path.dirname(os.path.abspath(__file__)))
WORK = os.path.join(ROOT, '.work')
EVID = os.path.join(ROOT, 'evidence')
REPLAYS = os.path.join(ROOT, 'replays')


def repo_state():
    def sh(*a):
        try:
            return subprocess.run(a, stdout=subprocess.PIPE, stderr=subprocess.DEVNULL, text=True, cwd=gen.REPO).stdout.strip()
        except Exception:
            return ''
    return dict(head=sh('git', 'rev-parse', 'HEAD'), diff_stat=sh('git', 'diff', '--stat'))


def load_known():
    with open(os.path.join(ROOT, 'known_findings.json')) as f:
        return json.load(f)


def relevant(pid, f, scope_fns):
    if f.kind != 'semantic':
        return False
    if f.tag is not None:
        return pid in f.tag[0]
    return f.fnkey is not None and f.fnkey in scope_fns


def write_evidence(pid, tier, seed, ev):
    os.makedirs(EVID, exist_ok=True)
    with open(os.path.join(EVID, pid + '.json'), 'w') as f:
        json.dump(ev, f, indent=1)


def main(argv):
    if len(argv) >= 2 and argv[0] == '--replay':
        return refute.replay_file(argv[1])
    if len(argv) < 1:
        print('usage: check <ID> [quick|thorough] | check --replay <path>')
        return 2
    pid = argv[0]
    tier = argv[1] if len(argv) > 1 else os.environ.get('VERIF_TIER', 'quick')
    if tier not in ('quick', 'thorough'):
        tier = 'quick'
    seed = int(os.environ.get('VERIF_SEED', '0') or 0)
    if pid not in props.PROPS:
        print('unknown or unclaimed property', pid)
        return 2
    P = props.PROPS[pid]
    t0 = time.time()
    workdir = os.path.join(WORK, 'gen', pid)
    results = []
    undecided = []
    try:
        for u in P['units']:
            unit, mode, modules = u[0], u[1], u[2]
            only = u[3] if len(u) > 3 else None
            r = run.run_unit(unit, mode, workdir, modules=modules, only=only)
            results.append(r)
    except gen.GenError as e:
        undecided.append('extraction: %s' % e)
    # no proof step may be assumed away: `assume(..)` is not allowed anywhere in a generated unit; `admit()` only inside the
    # broadcast axioms of the shim layer (each is listed in the evidence trusted base and covered by the canary below)
    import re as _re
    for r in results:
        txt = r.g.text()
        tl = txt.split('\n')
        for ln, line in enumerate(tl, 1):
            if _re.search(r'\bassume\s*\(', line) and 'assume_specification' not in line:
                undecided.append('unexpected assume(..) in generated unit %s line %d' % (r.unit, ln))
            if 'admit()' in line and not any('broadcast proof fn' in x for x in tl[max(0, ln - 4):ln]):
                undecided.append('unexpected admit() outside a shim axiom in generated unit %s line %d' % (r.unit, ln))
    # vacuity guard on every run: the admitted axioms of each unit must not prove `false`
    canaries = []
    seen_units = set()
    for r in results:
        if r.tool_error or any(f.kind == 'tool' for f in r.failures) or (r.unit, r.mode) in seen_units:
            continue
        seen_units.add((r.unit, r.mode))
        ok, detail = run.axiom_canary(r, workdir)
        canaries.append(dict(unit=r.unit, mode=r.mode, ok=ok, detail=detail))
        if ok is False:
            undecided.append('vacuity: %s mode %s: %s' % (r.unit, r.mode, detail))
        elif ok is None:
            undecided.append('vacuity canary could not be evaluated for %s mode %s: %s' % (r.unit, r.mode, detail))
    # vacuity guard for preconditions (no-abort mode): a contradictory `requires` would make everything proved under it void
    probes = []
    seen_probe = set()
    for r in results:
        if r.tool_error or any(f.kind == 'tool' for f in r.failures) or (r.unit, r.mode) in seen_probe:
            continue
        seen_probe.add((r.unit, r.mode))
        ok, detail, n = run.precondition_probes(r, workdir)
        probes.append(dict(unit=r.unit, mode=r.mode, probes=n, ok=ok, detail=detail))
        if ok is False:
            undecided.append('vacuity: %s mode %s: %s' % (r.unit, r.mode, detail))
        elif ok is None:
            undecided.append('precondition probes could not be evaluated for %s mode %s: %s' % (r.unit, r.mode, detail))
    # thorough: re-run with other solver seeds / rlimits: instability is reported as undecided, never as a violation
    stability = []
    if tier == 'thorough' and not undecided:
        for k in range(3):
            for ui, u in enumerate(P['units']):
                unit, mode, modules = u[0], u[1], u[2]
                only = u[3] if len(u) > 3 else None
                s = (seed * 7919 + 104729 * (k + 1)) % 100000
                r2 = run.run_unit(unit, mode, workdir, modules=modules, seed=s, tag='_s%d' % k, only=only)
                stability.append(dict(unit=unit, mode=mode, smt_seed=s, verified=r2.verified, errors=r2.errors))
                base = results[ui]
                if r2.tool_error:
                    undecided.append('stability run failed: %s' % r2.tool_error)
                elif (r2.errors == 0) != (base.errors == 0) or r2.verified != base.verified:
                    undecided.append('unstable proof: %s mode %s flips under smt seed %d' % (unit, mode, s))
    # ---- classify ----
    scope_fns = set()
    tagged = []
    fn_infos = {}
    trusted = []
    obligations = discharged = 0
    smt_ms = 0.0
    for r in results:
        if r.tool_error:
            undecided.append('%s mode %s: %s' % (r.unit, r.mode, r.tool_error))
        for ln, (pl, name, fk) in r.g.tags.items():
            if pid in pl:
                tagged.append(dict(unit=r.unit, mode=r.mode, obligation=name, function=fk, clause=r.g.lines[ln - 1].strip()))
                if fk:
                    scope_fns.add(fk)
        for k, info in r.g.fns.items():
            fn_infos.setdefault(k, info)
        obligations += r.verified + r.errors
        discharged += r.verified
        smt_ms += sum(r.fn_times.values())
        for ln, nm in r.trusted:
            trusted.append(nm)
    # Modular verification: a caller is proved against its callees' contracts.  If a contract of a function that an in-scope function
    # (transitively) calls is rejected, the proofs of this property may rest on a contract that no longer holds: that is UNDECIDED for
    # this property (never 'held'), unless the rejected clause is tagged for it (then it is a violation, below).
    import re as _re2
    callee_closure = set(scope_fns)
    for r in results:
        names = {}
        for (a, b, k) in r.g.fn_ranges:
            names.setdefault(k.split('::')[-1], set()).add(k)
        body = {k: '\n'.join(r.g.lines[a - 1:b]) for (a, b, k) in r.g.fn_ranges}
        work = [k for k in callee_closure if k in body]
        while work:
            k = work.pop()
            called = set(_re2.findall(r'\b([A-Za-z_][A-Za-z0-9_]*)\s*(?:::<[^>]*>)?\(', body[k]))
            # operators and conversions are calls of trait-impl methods that never appear by name: `a * b`, `a - b`, `x.into()`, `a < b`, ...
            if _re2.search(r'[-+*/%<>]|==|!=', body[k]):
                called |= {'add', 'sub', 'mul', 'div', 'rem', 'add_assign', 'sub_assign', 'eq', 'ne', 'partial_cmp', 'cmp', 'lt', 'le', 'gt', 'ge'}
            if 'into()' in body[k] or '::from(' in body[k]:
                called |= {'from', 'into'}
            for nm in called:
                for k2 in names.get(nm, ()):
                    if k2 not in callee_closure:
                        callee_closure.add(k2)
                        if k2 in body:
                            work.append(k2)
    fails = []
    callee_undecided = []
    for r in results:
        for f in r.failures:
            if f.kind == 'undecided':
                undecided.append('%s: %s in %s' % (r.unit, f.message, f.fnkey))
            elif f.kind == 'tool':
                undecided.append('%s: tool error: %s' % (r.unit, f.message))
            elif f.where == 'lemma':
                undecided.append('%s: lemma/preamble obligation failed (machinery, not repository code): %s line %d' % (r.unit, f.message, f.line))
            elif relevant(pid, f, scope_fns):
                fails.append((r, f))
            elif f.fnkey is not None and f.fnkey in callee_closure:
                callee_undecided.append('%s: a contract of %s, which functions carrying this property call, is rejected (%s): the proofs of %s may rest on it' % (r.unit, f.fnkey, f.name(), pid))
    if not fails:
        # only when no obligation of this property itself is rejected (a rejected one is reported as a violation, below)
        undecided.extend(callee_undecided)
    # vacuity: a property must have tagged obligations
    if not undecided and not tagged:
        undecided.append('vacuity: no tagged obligation generated for %s' % pid)
    if not undecided and P.get('min_tagged') and len(tagged) < P['min_tagged']:
        undecided.append('vacuity: %d tagged obligations generated, expected at least %d' % (len(tagged), P['min_tagged']))
    known = load_known()
    lines = []
    violations = 0
    exit_code = 0
    kf_reports = []
    replays = []
    # ---- known findings: replay their witnesses on the real code ----
    if not undecided:
        for kf in known.get('findings', []):
            if kf['property'] != pid or kf.get('status') != 'open':
                continue
            st = refute.check_known_finding(kf)
            kf_reports.append(dict(id=kf['id'], still_reproduces=st['reproduces'], detail=st['detail']))
            if st['reproduces']:
                lines.append('KNOWN-FINDING: property=%s %s' % (pid, kf['what']))
    # ---- violations ----
    if fails and not undecided:
        os.makedirs(REPLAYS, exist_ok=True)
        seen = set()
        for r, f in fails:
            key = f.name()
            if key in seen:
                continue
            seen.add(key)
            hit = refute.search(pid, f, tier, seed)
            path = os.path.join(REPLAYS, '%s-%s.json' % (pid, hashlib.sha1(key.encode()).hexdigest()[:10]))
            rec = dict(property=pid, failed_obligation=f.to_json(), unit=r.unit, mode=r.mode, repo=repo_state(),
                       counterexample=hit, checker_cmd=r.cmd)
            with open(path, 'w') as fp:
                json.dump(rec, fp, indent=1)
            replays.append(path)
            violations += 1
            lines.append('FAILED-OBLIGATION property=%s obligation=%s function=%s' % (pid, key, f.fnkey))
            if hit:
                lines.append('VIOLATION property=%s replay=%s' % (pid, path))
            else:
                lines.append('VIOLATION property=%s replay=%s no-failing-input-found' % (pid, path))
        exit_code = 1
    if undecided:
        # The verifier could not decide (lost anchor / construct outside the supported subset / solver limit).
        # That is never reported as a violation by itself.  The concrete search on the REAL code still runs: an input
        # on which the real code contradicts the property statement is a genuine violation, whatever the verifier's state.
        exit_code = 2
        hit = refute.search(pid, None, tier, seed)
        if hit:
            os.makedirs(REPLAYS, exist_ok=True)
            key = 'undecided:' + undecided[0][:120]
            path = os.path.join(REPLAYS, '%s-%s.json' % (pid, hashlib.sha1(key.encode()).hexdigest()[:10]))
            rec = dict(property=pid, failed_obligation=dict(obligation=key, verus_output='\n'.join(undecided), kind='undecided',
                       note='no obligation could be generated or decided for the changed code; the violation below was found by running the real code'),
                       repo=repo_state(), counterexample=hit, checker_cmd='; '.join(r.cmd for r in results))
            with open(path, 'w') as fp:
                json.dump(rec, fp, indent=1)
            replays.append(path)
            violations += 1
            lines.append('FAILED-OBLIGATION property=%s obligation=%s (verifier undecided; concrete counterexample found on the real code)' % (pid, key))
            lines.append('VIOLATION property=%s replay=%s' % (pid, path))
            exit_code = 1
    # thorough only: ASSUMPTION AUDIT.  Every obligation is discharged; the proofs rest on the assumed contracts of the dependencies
    # (shims, chain model).  Run the concrete harness on the REAL code as well: an input on which the real code contradicts the
    # property statement while the verifier accepted everything means an assumed contract is wrong -- reported as a violation with
    # its replay (the known-finding window is excluded by the harness predicates).  It can never turn a failure into 'held'.
    audit = None
    if tier == 'thorough' and exit_code == 0:
        ta = time.time()
        hit = refute.search(pid, None, 'quick', seed + 7)
        audit = dict(ran=True, wall_s=round(time.time() - ta, 1), counterexample_found=bool(hit),
                     note='concrete executions of the real code through /verif/replay with the quick search budget; not part of the proof')
        if hit:
            os.makedirs(REPLAYS, exist_ok=True)
            key = 'assumption-audit'
            path = os.path.join(REPLAYS, '%s-%s.json' % (pid, hashlib.sha1(key.encode()).hexdigest()[:10]))
            rec = dict(property=pid, failed_obligation=dict(obligation=key, kind='assumption-audit', verus_output='',
                       note='every obligation was discharged, yet the real code contradicts the property on the input below: an assumed contract of a dependency (or the chain model) does not describe what runs'),
                       repo=repo_state(), counterexample=hit, checker_cmd='; '.join(r.cmd for r in results))
            with open(path, 'w') as fp:
                json.dump(rec, fp, indent=1)
            replays.append(path)
            violations += 1
            lines.append('FAILED-OBLIGATION property=%s obligation=%s (all proofs accepted; concrete counterexample found on the real code)' % (pid, key))
            lines.append('VIOLATION property=%s replay=%s' % (pid, path))
            exit_code = 1
    wall = time.time() - t0
    ev = dict(
        property_id=pid, tier=tier, seed=seed, level='proof',
        coverage=dict(
            obligations=obligations, discharged=discharged,
            checker_cmd='; '.join(r.cmd for r in results) or 'verus (not run)',
            trusted_base=sorted(set(P.get('trusted', []) + ['generated-file scan: ' + t for t in sorted(set(trusted))])),
            back_end='verus 0.2026.09.13 / z3 (bundled)',
            solver_time_ms=round(smt_ms, 1),
            tagged_obligations=len(tagged),
            samples=tagged[:40],
            functions_under_contract=[dict(function=k, file=v['file'], lines=[v['line_start'], v['line_end']], sha256=v['sha256'],
                                           rewrites=v['rewrites'], in_scope=(k in scope_fns)) for k, v in sorted(fn_infos.items())],
            units=[dict(unit=r.unit, mode=r.mode, verified=r.verified, errors=r.errors, wall_s=round(r.wall_s, 2), generated=r.gen_path) for r in results],
            stability_runs=stability,
            assumption_audit=audit,
            vacuity_canaries=canaries,
            precondition_probes=probes,
            known_findings=kf_reports,
            undecided=undecided,
            failed_obligations=[f.to_json() for _, f in fails],
            replays=replays,
            repo=repo_state(),
            explanation=P.get('explanation', ''),
        ),
        assumptions=P.get('assumptions', []),
        wall_s=round(wall, 2),
        violations=violations,
    )
    write_evidence(pid, tier, seed, ev)
    for l in lines:
        print(l)
    if exit_code == 2:
        for u in undecided:
            print('UNDECIDED property=%s %s' % (pid, u))
    print('%s %s: %d/%d obligations discharged, %d tagged clauses, %d violation(s), %.1fs' % (pid, tier, discharged, obligations, len(tagged), violations, wall))
    return exit_code


if __name__ == '__main__':
    sys.exit(main(sys.argv[1:]))
