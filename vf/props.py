"""Per-property configuration: which generated units carry the property's obligations."""

T_VERUS = 'Verus 0.2026.09.13 + bundled Z3; extractor span selection and the mechanical rewrites R1-R3 plus declared rewrites (listed per function under functions_under_contract.rewrites)'
T_U256 = 'bigint::U256 v4.4.3 (dependency): + - * abort on overflow/underflow, / is floor division and aborts on zero divisor, is_zero, derived ordering == numeric ordering (shim_u256.rs, external_body)'
T_UINT128 = 'cosmwasm_std::Uint128 v1.1.8 (dependency): u128(), From<u128>, zero/one/is_zero, comparison (shim_uint128.rs, external_body)'
T_INTO = 'std reflexive conversion `impl<T> From<T> for T` for U256 and Uint256 (two admitted broadcast axioms each); Into::into defers to From::from (vstd)'
T_DERIVE = 'derived PartialEq/PartialOrd on Uint256(U256)/Decimal256(U256) compare the wrapped value (derive line checked textually on every run)'
T_OVERFLOW = 'Rust primitive-integer overflow aborts (overflow-checks = true in the release profile, debug default)'

PROPS = {}

PROPS['C08'] = dict(
    units=[('u_math.rs', 'B', None), ('u_math.rs', 'A', None)],
    min_tagged=40,
    trusted=[T_VERUS, T_U256, T_UINT128, T_INTO, T_DERIVE, T_OVERFLOW],
    assumptions=['bigint::U256 itself is not verified (dependency); every wrapper in packages/bignumber/src/math.rs is',
                 'text/JSON conversions (FromStr, Display, serde) are outside this property (see C18)'],
    explanation='Every arithmetic function of math.rs is verified twice against the extracted text: mode B proves "if it returns, the abort-freedom condition held and the result is exactly the mathematical value (floor where the type requires)"; mode A proves "under exactly that condition the body reaches its end". Together: returns exactly on the allowed set, exact there.',
)

PROPS['C06'] = dict(
    units=[('u_formulas.rs', 'B', None), ('u_pair.rs', 'B', None), ('u_factory.rs', 'B', ['factory', 'querier'])],
    min_tagged=5,
    trusted=[T_VERUS, T_U256, T_UINT128, T_INTO, T_DERIVE],
    assumptions=['the pair handler and simulation report compute_swap\'s tuple unchanged (proved under C02/C12)'],
    explanation='compute_swap is pinned to the spec functions sw_n/sw_comm/sw_gross/sw_ideal; the statement\'s bounds are pure lemmas over those functions (lemma_swap_props, lemma_swap_mono) proved for all naturals.',
)

PROPS['C01'] = dict(
    units=[('u_formulas.rs', 'B', None)],
    min_tagged=3,
    trusted=[T_VERUS, T_U256, T_UINT128, T_INTO, T_DERIVE],
    assumptions=['system level (reserves after = reserves before + offer / - payout) relies on the pair handler contracts (C02) and the chain model'],
    explanation='compute_swap: outside the recorded rounding window (known finding C01-W1) n*(x+a) <= y*a, (x+a)*(y-n) >= x*y and n < y; inside it n <= floor(y*a/(x+a)) + 1 and n <= y.',
)

T_CW = 'cosmwasm_std 1.1.8 / cw20 1.0.0 data types re-declared with the same public shape; Uint128::{checked_sub,checked_mul,multiply_ratio}, Decimal::from_ratio, Uint128*Decimal (256-bit intermediate, floor, abort on zero divisor / >128-bit result) as read from the dependency source (shim_cw.rs, external_body)'
T_API = 'Api::{addr_validate, addr_canonicalize, addr_humanize}: validate keeps the text; canonicalize/humanize are an uninterpreted deterministic partial bijection'
T_STORE = 'cw-storage-plus Item: load returns what the last save stored, items do not alias (modelled as fields of a storage record)'
T_QUERY = 'QuerierWrapper::query (one JSON round trip to the chain) is external: its answer is the uninterpreted `answer::<T>(world, request)`; admitted axioms (units/haloswap_querier.rs, group_chain_queries) state that the bank Balance query answers the ledger balance, a cw20 Balance / TokenInfo query the ledger balance / supply / decimals. The eight wrappers of packages/haloswap/src/querier.rs are VERIFIED against these (which contract is asked, which address / denom / message is sent, which field is returned)'
T_SERDE = 'serde: to_binary is an uninterpreted function of the value, from_binary an uninterpreted deterministic function of the bytes'
T_DERIVE2 = '#[cw_serde] derives (Clone, PartialEq) are structural; thiserror #[from] and the ? operator convert errors through the From impls (vstd spec_from axioms)'
T_R4 = 'rewrite R4: std iterator adapters / Option::unwrap_or_else / Vec::contains replaced by helper loops that are themselves verified in the same file (helpers.rs); std is trusted to behave like them'
T_R2 = 'rewrite R2: format!(..) and Response::add_attribute(s) are dropped: event attributes and error strings are NOT verified (message payloads are)'
T_DEC = 'Decimal -> Decimal256 (implemented in math.rs through text) is value preserving (C18 not applicable)'
T_CHAIN = 'chain semantics are a SPECIFICATION, not verified code: units/mlem_ledger.rs states it explicitly (a transfer / TransferFrom / Send moves exactly `amount` of one asset between exactly two balances and needs a positive covered amount; Mint / Burn change one balance and the supply; funds and cw20 Send deliver before the handler runs; messages of a transaction run in order and a failure reverts everything). The handler contracts pin the exact messages emitted; what those messages do to balances over a whole transaction is then machine-checked against that specification (obligations ledger.*)'

T_FMT = 'AssetInfo Display (units/shim_fmt.rs): `write!(f, SPEC, x)` with one String argument is rewritten to Formatter::write_display(SPEC, x), ASSUMED to append x for the plain spec "{}" (any other spec: result unspecified, so the clause is rejected); AssetInfo::to_string stands for std\'s blanket ToString impl (fresh buffer, Display::fmt, panic on error) and is VERIFIED against fmt\'s contract; Result::unwrap_or_else is the Ok payload or the closure\'s result (std)'
PAIR_TRUST = [T_VERUS, T_FMT, T_U256, T_UINT128, T_INTO, T_DERIVE, T_CW, T_API, T_STORE, T_QUERY, T_SERDE, T_DERIVE2, T_R4, T_R2, T_DEC, T_OVERFLOW]

PROPS['C02'] = dict(
    units=[('u_pair.rs', 'B', None)], min_tagged=12, trusted=PAIR_TRUST,
    assumptions=[T_CHAIN, 'the response attributes offer_amount/return_amount are not verified (R2); the amount in the transfer message is'],
    explanation='execute(Swap), receive_cw20(Swap) and swap carry postconditions pinning: native-only direct swaps with attached == declared; hook amount == cw20 amount, hook sender is a pool cw20 AND the named asset is that token; pricing on (reserve - offer, other reserve); exactly one transfer of n of the ask asset to the receiver (none when n == 0); no storage write.',
)
PROPS['C04'] = dict(
    units=[('u_pair.rs', 'B', None)], min_tagged=4, trusted=PAIR_TRUST,
    assumptions=[T_CHAIN, 'supply and holder balance fall by exactly a because the hook is only accepted from the LP token (proved) after cw20 Send moved a to the pair, and the single Burn{a} message burns the pair\'s own balance (cw20-base semantics)'],
    explanation='withdraw_liquidity: messages are exactly [pay asset0 x0, pay asset1 x1, burn a] with x_i = floor(r_i*floor(a*D/S)/D); lemma_c04 gives r_i*a/S - r_i/D - 1 < x_i <= r_i*a/S for all naturals.',
)
PROPS['C05'] = dict(
    units=[('u_pair.rs', 'B', None), ('u_factory.rs', 'B', ['factory', 'querier'])], min_tagged=10, trusted=PAIR_TRUST,
    assumptions=[T_CHAIN, 'the LP token contract never spends its own balance (cw20-base has no such path): the reserved unit minted to the LP token address is unspendable'],
    explanation='calculate_lp_token_amount_to_user and provide_liquidity: share is min_i floor(d_i*S/r_i) against reserves net of native deposits (min-1 < m <= min, m >= 1), first provision gated by whitelist and minimums with floor(sqrt(d0*d1)) split 1 + (m-1); deposits pulled are exactly the declared amounts via TransferFrom(owner = caller) / attached funds.',
)
PROPS['C09'] = dict(
    units=[('u_pair.rs', 'B', None), ('u_factory.rs', 'B', ['factory', 'querier'])], min_tagged=5, trusted=PAIR_TRUST,
    assumptions=['"otherwise nothing changes" = the handler returns Err and the chain reverts the transaction'],
    explanation='assert_sent_native_token_balance: Ok iff declared == amount of the first attached coin of that denom (0 when absent); provide_liquidity checks both declared assets before anything else (loop invariant), swap checks its offer first.',
)
PROPS['C10'] = dict(
    units=[('u_pair.rs', 'B', None), ('u_factory.rs', 'B', ['factory', 'querier']), ('u_text.rs', 'B', ['text'])], min_tagged=6, trusted=PAIR_TRUST,
    assumptions=['asset decimals differ by at most 19 (10u64.pow aborts above; the property ranges over 0..18)'],
    explanation='assert_max_spread: Ok => the guard predicate is false, Err(MaxSpreadAssertion) => it is true, and lemma_c10_belief / lemma_c10_plain turn the guard into the statement\'s four inequalities for all naturals.',
)
PROPS['C12'] = dict(
    units=[('u_pair.rs', 'B', None)], min_tagged=8, trusted=PAIR_TRUST,
    assumptions=[T_CHAIN, 'router simulate loops are covered by the router unit (see C13) once built; this check covers pair quotes and the closed form'],
    explanation='query_simulation pins (n, spread, c) to the same spec functions as swap does at (reserve before deposit, other reserve, offer); compute_offer_amount is pinned to the closed form with the never-above and rounding-bound lemmas; query_reverse_simulation passes (other reserve, ask reserve, ask).',
)
PROPS['C15'] = dict(
    units=[('u_pair.rs', 'B', None), ('u_text.rs', 'B', ['text'])], min_tagged=8, trusted=PAIR_TRUST,
    assumptions=[],
    explanation='assert_slippage_tolerance / calc_price_drop / calc_slippage_tolerance: exact guard predicate in both directions, tolerance > 1 always an error, and lemma_c15 relates the guard to the statement\'s two inequalities; provide_liquidity passes deposits and reserves net of native deposits.',
)
PROPS['C01']['units'] = [('u_pair.rs', 'B', None)]
PROPS['C01']['trusted'] = PAIR_TRUST
PROPS['C01']['min_tagged'] = 8
PROPS['C01']['assumptions'] = [T_CHAIN, 'router entry reaches swap only through the pair entry points proved here (router contracts: C13)']

T_R6 = "rewrite R6': `.into_iter().map(closure capturing &mut).collect::<StdResult<Vec<_>>>()?` and `for x in v.into_iter().rev()` are unrolled into the equivalent explicit loops (declared rewrites listed per function); iteration order and early-exit-on-first-error are preserved"
T_ROUTERQ = 'cross-contract query answers (factory Pair query, pair Simulation / ReverseSimulation queries) are NAMED by uninterpreted functions of the chain state (pair_of, sim_return, rev_offer) through admitted naming axioms on `answer`; what those queries return is proved on the pair / factory side; the wrappers in querier.rs are verified to send exactly that request'
T_HASH = 'std HashMap<String,bool>: vstd hash-map specs plus two admitted axioms (a String is determined by its characters; String obeys the hash key model); HashMap::keys().len() rewritten to HashMap::len()'
ROUTER_TRUST = [T_VERUS, T_FMT, T_UINT128, T_CW, T_API, T_STORE, T_QUERY, T_SERDE, T_DERIVE2, T_R4, T_R2, T_R6, T_ROUTERQ, T_HASH]

PROPS['C11'] = dict(
    units=[('u_router.rs', 'B', ['router', 'querier'])], min_tagged=8, trusted=ROUTER_TRUST,
    assumptions=[T_CHAIN, 'messages of one transaction are executed in order and the whole transaction reverts if any of them fails (CosmWasm semantics for plain messages)'],
    explanation='execute_swap_operations (both entry points) emits one self-call per hop followed, when minimum_receive is given, by exactly one AssertMinimumReceive{asset = ask of the last hop, prev_balance = recipient balance at acceptance, minimum_receive, receiver = to or sender} and nothing after it; assert_minium_receive returns Ok only if called by the router itself and balance >= prev_balance + minimum_receive (checked_sub makes a decrease an error).',
)
PROPS['C13'] = dict(
    units=[('u_router.rs', 'B', ['router', 'querier']), ('u_pair.rs', 'B', None)], min_tagged=12, trusted=ROUTER_TRUST,
    assumptions=[T_CHAIN, 'distinct pairs / router holding none of the route assets are hypotheses of the statement; that hop k+1 receives exactly what hop k paid follows from the pair contracts (C02) and the chain model, not from a machine-checked composition'],
    explanation='empty routes are rejected; assert_operations accepts iff the remove-offer/insert-ask fold leaves exactly one asset; hop k is a self-call carrying operation k and the final recipient only on the last hop; execute_swap_operation (router-only) offers exactly the router\'s whole balance of the offer asset to the factory-registered pair with to passed through; asset_into_swap_msg builds the native / cw20-send swap message; route simulations are the hop-by-hop folds of the pair queries.',
)
PROPS['C12']['units'] = [('u_pair.rs', 'B', None), ('u_router.rs', 'B', ['router', 'querier'])]
PROPS['C12']['trusted'] = sorted(set(PAIR_TRUST + ROUTER_TRUST))
PROPS['C12']['assumptions'] = [T_CHAIN]

PROPS['C07'] = dict(
    units=[('u_pair.rs', 'B', None), ('u_router.rs', 'B', ['router', 'querier']), ('u_factory.rs', 'B', ['factory', 'querier'])], min_tagged=20,
    trusted=sorted(set(PAIR_TRUST + ROUTER_TRUST)),
    assumptions=[T_CHAIN, 'ledger effect of each emitted message (bank send moves coins from the emitting contract only; cw20 transfer/transfer_from/mint/burn/send move only the named owner/recipient balances and the supply) is the documented behaviour of the bank module and cw20-base 1.0.0, not verified here'],
    explanation='Frame contracts: every state-changing pair / router handler carries a postcondition that pins its ENTIRE message list, funds included (factory: no message from configuration updates, one Migrate message, one Instantiate sub-message without funds, one fund-less UpdateNativeTokenDecimals message per affected pair; swap: at most one transfer of the ask asset from the pair to the receiver; withdraw: two refunds to the hook sender + burn of exactly a; provide: TransferFrom(owner = caller, recipient = pair, declared amount) per cw20 asset + mint(s) on the LP token of exactly the computed share; router: self-calls per hop, one swap message spending only the router\'s own balance, assertion message) and leaves storage untouched. No other message can be emitted, so no third-party balance is named anywhere.',
)

T_FSTORE = 'factory storage: cw-storage-plus Item/Map modelled as fields / ghost maps of a storage record; may_load never fails on typed storage; Map::range(storage, None | ExclusiveRaw(lo), None, Ascending) yields every stored record whose key is above lo exactly once, in ascending byte order of the keys, and stored values deserialize (MapPairs::range_all / range_from, axiom_sorted_keys); read_all_pairs and read_pairs are VERIFIED on top of that'
T_BYTES = 'byte-level std facts: String::as_bytes is an injective function of the text (UTF-8), <[u8] as Ord>::cmp is lexicographic, Ordering::then, bool::cmp, u64::to_be_bytes is injective with 8 bytes; slice::sort_by on two elements / [T;2]::to_vec / Vec::extend_from_slice behave like the verified helpers'
T_FQ = 'factory-side queries are projections of the chain state: native_decimals_of (factory allow-list query), cw20 token_info, pair_self_report (the pair\'s own Pair{} answer), reply_contract_addr (address parsed from the instantiate reply); Decimal256 -> text -> Decimal256 and the literal "0.003" go through the text conversions, which are proved in the text unit (C18) and ASSUMED value-preserving in the factory unit'
FACTORY_TRUST = [T_VERUS, T_FMT, T_CW, T_API, T_FSTORE, T_BYTES, T_FQ, T_SERDE, T_DERIVE2, T_R4, T_R2]
PROPS['C07']['trusted'] = sorted(set(PROPS['C07']['trusted'] + FACTORY_TRUST))
PROPS['C05']['trusted'] = sorted(set(PROPS['C05']['trusted'] + FACTORY_TRUST))
PROPS['C10']['trusted'] = sorted(set(PROPS['C10']['trusted'] + FACTORY_TRUST))
PROPS['C09']['trusted'] = sorted(set(PROPS['C09']['trusted'] + FACTORY_TRUST))
PROPS['C09']['assumptions'] = PROPS['C09']['assumptions'] + ['the two assets of a pair are distinct (one attached coin cannot stand for both declared deposits): established by the factory, whose creation path is verified here (`create.distinct-assets`); a pair instantiated by hand with the same asset twice is outside the statement']
PROPS['C13']['trusted'] = sorted(set(PROPS['C13']['trusted'] + PAIR_TRUST))
PROPS['C06']['trusted'] = sorted(set(PROPS['C06']['trusted'] + PAIR_TRUST + FACTORY_TRUST))
PROPS['C06']['assumptions'] = PROPS['C06'].get('assumptions', []) + ['the commission rate c of the statement is the rate the pair was created with: the factory hands the requested rate (or the default) to the pair unchanged, the pair stores it at instantiate, nothing rewrites it (migrate, decimals update), and swap / simulation read that stored rate']

PROPS['C14'] = dict(
    units=[('u_factory.rs', 'B', ['factory', 'querier']), ('u_pair.rs', 'B', None), ('u_router.rs', 'B', ['router', 'querier'])], min_tagged=25,
    trusted=sorted(set(PAIR_TRUST + ROUTER_TRUST + FACTORY_TRUST)),
    assumptions=['"a rejected call changes no balance" = the handler returns Err and the chain reverts the transaction; for storage the no-write clauses are proved', 'the former owner is rejected after a transfer: induction over cfg.ownership-follows (the stored owner is exactly the last successfully configured one)'],
    explanation='every privileged arm carries "Ok => caller is the stored authority" and "caller is not the authority => Err and storage unchanged": factory execute (all four arms: owner), pair update_native_token_decimals (factory only), pair hooks (withdraw: own LP token; swap: one of its cw20 assets), router single-hop and minimum-receive messages (router itself); update_config sets the owner to exactly the requested address.',
)
PROPS['C16'] = dict(  # pair-side clauses: init.stores-what-it-was-told, self-report.is-stored-record
   
    units=[('u_factory.rs', 'B', ['factory', 'asset', 'querier']), ('u_pair.rs', 'B', None)], min_tagged=14, trusted=FACTORY_TRUST,
    assumptions=['"live cw20 contract" = the token_info query answers; lookups resolve through PAIRS[pair_key(raw(infos))] and the symmetric / injective key lemmas; the registry invariant (every record stored under the key of its own assets) is carried by lemma_registry_wf_preserved over create_pair + reply', 'identifier byte strings are shorter than 2^64 (Vec/String lengths)'],
    explanation='pair_key is verified against pair_key_spec (kind tag + length prefix + sorted identifiers); lemma_key_symmetric and lemma_key_injective give either-order lookup and one-key-per-unordered-set for all identifiers; execute_create_pair: owner only, distinct assets, rate <= 1, key not yet registered, temporary record = (key, raw infos, TRUE decimals from the allow-list / token_info), frame; reply stores exactly (tmp infos, tmp decimals, pair self-report) under the tmp key and leaves every other record untouched; query_pair reads PAIRS at the key of the raw infos.',
)
PROPS['C17'] = dict(
    units=[('u_factory.rs', 'B', ['factory', 'asset', 'querier']), ('u_pair.rs', 'B', None)], min_tagged=14, trusted=sorted(set(FACTORY_TRUST + PAIR_TRUST)),
    assumptions=[T_CHAIN, 'the UpdateNativeTokenDecimals messages emitted by the factory are delivered to the pairs in the same transaction (chain semantics); registry well-formedness (records stored under the key of their own two distinct assets) is an explicit hypothesis discharged by lemma_registry_wf_preserved / lemma_registry_wf_after_update'],
    explanation='execute_add_native_token_decimals: allow-list entry becomes the new value; for a well-formed registry and an already registered denom EVERY record (loop invariant over the complete listing) has the position(s) of that denom set to the new value and everything else unchanged; first registration touches no record; pair update_native_token_decimals: factory only, decimals replaced iff the denom is one of its native assets.',
)

PROPS['C19'] = dict(
    units=[('u_factory.rs', 'B', ['factory', 'asset', 'querier'])], min_tagged=14, trusted=FACTORY_TRUST,
    assumptions=['the order and completeness of cw_storage_plus::Map::range over the chain KV store is an assumed dependency contract (ascending byte order of the raw keys, ExclusiveRaw bound, every record once)',
                 'page size >= 1 (limit = Some(0) returns an empty page and a walk that stops on an empty page ends at once: degenerate, excluded)',
                 'identifier hygiene (predicate ids_clean): no registered native denom contains a byte <= 0x01 (bank denoms are [a-zA-Z][a-zA-Z0-9/:._-]{2,127}) and all registered canonical token addresses have one common length. From this and registry well-formedness lemma_no_ext01_from_ids PROVES that no registered key continues another one by a byte <= 0x01 (no_ext01), which is what lemma_c19_next_page needs. The factory itself does not validate denom characters, so this stays a hypothesis about the chain',
                 'registry well-formedness (every record stored under the key of its own assets) is the invariant established under C16 / C17 (lemma_registry_wf_preserved)',
                 'the walker continues with the asset_infos of the last pair of the previous page, as the statement says'],
    explanation='read_pairs is verified: the page limit is min(limit or 10, 30); the cursor is pair_key(start_after) ++ [1], exclusive (calc_range_start, closure verified against its real body); the page is the first min(limit, remaining) records, in ascending key order, above the cursor, each mapped by to_normal (closure verified). query_pairs converts the cursor with to_raw and passes everything through; the query entry point serialises exactly that answer. Pure lemmas: the cursor built from the last returned pair is that pair\'s stored key (lemma_cursor_of_last, via registry_wf and canonicalize o humanize = id); under no_ext01 no key lies in (k, k ++ [1]] (lemma_gap, lemma_no_gap), so the next page resumes exactly at the following index (lemma_cursor_split, lemma_split_unique); by induction the concatenation of the pages is the whole ascending listing (lemma_walk_complete), which has no duplicates (lemma_sorted_no_dup). lemma_c19_walk states the property itself over a sequence of pages each satisfying the proved postcondition of the Pairs query: first page from the beginning, every next page continuing after the last pair of the previous non-empty page, ending with the first empty page => the t-th visited pair is the t-th registered key, all keys are visited, none twice.',
)

PROPS['C20'] = dict(
    units=[('u_pair.rs', 'A', ['asset', 'shim', 'querier'])] + [('u_pair.rs', 'A', None, ('pair', [f])) for f in ('withdraw_liquidity', 'receive_cw20', 'execute', 'lemma_c20_payable', 'lemma_refund_fits', 'lemma_c04')], min_tagged=6, trusted=PAIR_TRUST,
    assumptions=[T_CHAIN, 'mode A = "does not abort / succeeds": environment services (address (de)canonicalisation, bank / cw20 queries, serialisation) are assumed not to fail -- such failures are outside the statement',
                 'that the three emitted messages are then executable (the pair holds the refunds and the LP tokens just sent to it; bank and cw20 reject only zero or uncovered amounts) is chain semantics; the refunds are proved >= 1 and <= reserve',
                 'reachability of states with positive supply and reserves after arbitrary histories rests on C01 (outside the recorded window the ask reserve stays positive)'],
    explanation='the whole entry path execute(Receive) -> receive_cw20(WithdrawLiquidity hook from the LP token) -> withdraw_liquidity is verified in the NO-ABORT mode: every panicking primitive (Decimal::from_ratio, Uint128 * Decimal, checked arithmetic) carries its abort condition as a precondition. Under "0 < a <= S and r_i*a/S >= r_i/10^18 + 2 for both assets" the body reaches its end with r is Ok, refunds floor(r_i*floor(a*D/S)/D) >= 1 and <= r_i; the helpers on the path (query_pools, to_normal, query_pool, into_msg) are proved to succeed.',
)

PROPS['C03'] = dict(
    units=[('u_pair.rs', 'B', None)], min_tagged=20, trusted=PAIR_TRUST,
    assumptions=[T_CHAIN, 'each transaction is atomic (a failed one repeats the state), so interleavings of actors are sequences of whole operations; router routes are sequences of pair swaps (C13)',
                 'the ledger effect of the emitted messages (reserves after swap = (x+a, y-n); after provide = (r_i+d_i), supply+m; after withdraw = (r_i-x_i), supply-a) is chain semantics'],
    explanation='Step lemmas take as hypotheses exactly the predicates proved as postconditions of the real handlers (c01_no_overpay from compute_swap/swap, c05_fair_share from share minting/provide_liquidity, c04_bounds from withdraw_liquidity, native-funds and hook-asset checks so that the credited offer is the delivered one) and conclude that reserve0*reserve1*supply_before^2 <= reserve0\'*reserve1\'*supply_after^2... (cross-multiplied); transitivity + induction over an arbitrary finite sequence of states closes "any history". Inside the recorded compute_swap window the swap step does not hold: known finding C03-W1.',
)

T_TEXT = 'std / bigint / serde text primitives are ASSUMED over the character view (units/shim_text.rs): bigint U256::from_dec_str (all bytes ASCII digits, the empty string reads as 0, Err above 256 bits) and U256 Display (canonical numeral); str::split(char).collect, str::len (UTF-8 length = character count for ASCII), str::repeat, String + &str, str::trim_end_matches(char), Formatter::write_str / write_char (append or fail), the blanket ToString impl (fresh buffer, Display::fmt, panic on error), Result::map_err / Option::ok_or_else / usize::checked_sub (vstd), serde Serializer::serialize_str and de::Error::custom as opaque trait methods; cosmwasm_std::Decimal Display / FromStr (same canonical form / grammar, non-empty numerals, 128 bits). JSON string (de)serialisation of these ASCII texts by serde_json is the identity (dependency)'
PROPS['C18'] = dict(
    units=[('u_text.rs', 'B', ['text']), ('u_math.rs', 'B', None), ('u_math.rs', 'A', None)]
          + [('u_text.rs', 'A', None, ('text', [f])) for f in ('Decimal256::from_str', 'Decimal256::fmt', 'Decimal256::to_string')],
    min_tagged=30,
    trusted=[T_VERUS, T_U256, T_UINT128, T_INTO, T_DERIVE, T_OVERFLOW, T_TEXT, T_R4, T_R2],
    assumptions=['the grammar of accepted inputs is the one the repository pins: one or two dot-separated strings of ASCII digits, at most 18 fractional digits, an EMPTY part reads as zero (unit test decimal_from_str_works asserts from_str("") == 0 and from_str("1.") == 1; bigint from_dec_str reads "" as 0). The doc comment on Decimal256::from_str calls "" and ".23" disallowed: recorded as an observation in DESIGN.md, not a violation',
                 'trait impls that cannot be implemented for shim types (FromStr, Display, TryFrom<&str>, Serialize, de::Visitor, From<Uint256> for String, From<Decimal>/<Decimal256>) are lifted to inherent / free functions by declared rewrites of the signature only; bodies are the repository text',
                 'Deserialize::deserialize (one line handing the visitor to the deserializer) and Visitor::expecting (an error-message string) are not under contract',
                 'through JSON = serde_json writes and reads these ASCII strings unchanged (dependency)'],
    explanation='Function against spec function: Decimal256::from_str is proved to return Ok exactly on the accepted grammar (when it returns) with the value the text denotes (text_denotes: whole*10^18 + fraction*10^(18-len)), Err for more than 18 fractional digits or more than one dot; in the no-abort mode it is proved not to abort and to return Ok whenever the denoted value fits 256 bits. Display::fmt is proved to write exactly render_dec(value) (whole, then "." and the 18-digit fraction without trailing zeros), never aborting; to_string is that output. lemma_c18_dec_roundtrip: for every d < 2^256 the rendering is accepted, denotes d and nothing else (numeral lemmas: value of the canonical numeral, leading zeros, trimmed trailing zeros, split at the single dot) => parse(render(d)) = d, directly and through the serde impls (serialize writes render_dec, visit_str is from_str). Uint256: from_str / try_from / visit_str return the value of the digit string, Display / String::from / serialize write the canonical numeral, lemma_c18_uint_roundtrip. Width: Uint256 <-> u64 / u128 / Uint128 (narrow.* / widen.* in both modes, shared with C08) and Decimal <-> Decimal256, which math.rs implements THROUGH TEXT: proved value-preserving (or aborting when it does not fit) from the two text contracts and the round-trip lemma.',
)
for _p in ('C10', 'C15'):
    PROPS[_p]['trusted'] = sorted(set(PROPS[_p]['trusted'] + [T_TEXT]))
    PROPS[_p]['explanation'] += ' The guard receives its Decimal arguments through `From<Decimal> for Decimal256` (implemented through text in math.rs): that conversion is proved value-preserving in the text unit.'

