"""Per-property configuration: which generated units carry the property's obligations."""

T_VERUS = 'Verus 0.2026.09.13 + bundled Z3; extractor span selection and the mechanical rewrites R1-R3 plus declared rewrites (listed per function under functions_under_contract.rewrites)'
T_U256 = 'bigint::U256 v4.4.3 (dependency): + - * abort on overflow/underflow, / is floor division and aborts on zero divisor, is_zero, derived ordering == numeric ordering (shim_u256.rs, external_body)'
T_UINT128 = 'cosmwasm_std::Uint128 v1.1.8 (dependency): u128(), From<u128>, zero/one/is_zero, comparison (shim_uint128.rs, external_body)'
T_INTO = 'std reflexive conversion `impl<T> From<T> for T` for U256 and Uint256 (two admitted broadcast axioms each); Into::into defers to From::from (vstd)'
T_DERIVE = 'derived PartialEq/PartialOrd on Uint256(U256)/Decimal256(U256) compare the wrapped value (derive line checked textually on every run)'
T_OVERFLOW = 'Rust primitive-integer overflow aborts (overflow-checks = true in the release profile, debug default)'

PROPS = {}

PROPS['C08'] = dict(
    units=[('u_math.rs', 'B', None), ('u_math.rs', 'A', None)],
    min_tagged=40,
    trusted=[T_VERUS, T_U256, T_UINT128, T_INTO, T_DERIVE, T_OVERFLOW],
    assumptions=['bigint::U256 itself is not verified (dependency); every wrapper in packages/bignumber/src/math.rs is',
                 'text/JSON conversions (FromStr, Display, serde) are outside this property (see C18 not applicable)'],
    explanation='Every arithmetic function of math.rs is verified twice against the extracted text: mode B proves "if it returns, the abort-freedom condition held and the result is exactly the mathematical value (floor where the type requires)"; mode A proves "under exactly that condition the body reaches its end". Together: returns exactly on the allowed set, exact there.',
)

PROPS['C06'] = dict(
    units=[('u_formulas.rs', 'B', None)],
    min_tagged=5,
    trusted=[T_VERUS, T_U256, T_UINT128, T_INTO, T_DERIVE],
    assumptions=['the pair handler and simulation report compute_swap\'s tuple unchanged (proved under C02/C12)'],
    explanation='compute_swap is pinned to the spec functions sw_n/sw_comm/sw_gross/sw_ideal; the statement\'s bounds are pure lemmas over those functions (lemma_swap_props, lemma_swap_mono) proved for all naturals.',
)

PROPS['C01'] = dict(
    units=[('u_formulas.rs', 'B', None)],
    min_tagged=3,
    trusted=[T_VERUS, T_U256, T_UINT128, T_INTO, T_DERIVE],
    assumptions=['system level (reserves after = reserves before + offer / - payout) relies on the pair handler contracts (C02) and the chain model'],
    explanation='compute_swap: outside the recorded rounding window (known finding C01-W1) n*(x+a) <= y*a, (x+a)*(y-n) >= x*y and n < y; inside it n <= floor(y*a/(x+a)) + 1 and n <= y.',
)
