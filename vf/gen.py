"""Template processor: builds one Verus input file from a unit template + the CURRENT /repo text.

Directives (each on its own line inside a template):

  //%include <path relative to /verif/units>
  //%if <FLAG> / //%else / //%endif            (flags come from the unit's mode, e.g. A or B)
  //%item <repo file> <struct|enum|const|type> <Name>
        the item is copied verbatim; attributes (derive, cw_serde, schemars, doc) are dropped
  //%fn <repo file> | <impl header or -> | <fn name>
  //%%ret <name>                 name given to the return value (default r)
  //%%sig                        lines spliced between signature and body (requires/ensures/decreases)
  //%%head                       lines spliced as first statements of the body
  //%%insert before|after #k /regex/      lines spliced before/after the k-th body line matching regex
  //%%loop N                     lines spliced between the N-th loop header and its '{'
  //%%rewrite #count /regex/ => replacement ## reason     declared rewrite on the function text (#? = at most once, may be absent)
  //%end

Contract clauses carry tags  /*[C08,C06 name]*/  at the start of a line; the generator records the
generated line of every tag, so a Verus diagnostic can be traced to a named obligation.
Function bodies are never stored in /verif: they are read from /repo on every run.
"""
import hashlib
import os
import re

from . import rustscan as rs

REPO = os.environ.get('VERIF_REPO', '/repo')
UNITS = os.path.join(os.path.dirname(os.path.dirname(os.path.abspath(__file__))), 'units')


class GenError(Exception):
    """Anchor lost / construct unsupported: the unit is undecided (exit 2), never a violation."""


TAG_RE = re.compile(r'/\*\[([A-Z0-9,]+)\s+([^\]]+)\]\*/')

_src_cache = {}


def repo_src(path):
    full = os.path.join(REPO, path)
    if full not in _src_cache:
        try:
            with open(full) as f:
                src = f.read()
        except OSError as e:
            raise GenError('cannot read %s: %s' % (path, e))
        _src_cache[full] = (src, rs.code_mask(src))
    return _src_cache[full]


def strip_attrs(text):
    """Drop every #[...] attribute and doc comment from an item text (mechanical rewrite R3)."""
    mask = rs.code_mask(text)
    out = []
    dropped = []
    i = 0
    n = len(text)
    while i < n:
        if mask[i] and text[i] == '#' and re.match(r'#!?\[', text[i:i + 3]):
            ob = text.index('[', i)
            cl = rs.match_close(text, mask, ob)
            dropped.append(rs.norm_ws(text[i:cl + 1]))
            i = cl + 1
            continue
        out.append(text[i])
        i += 1
    res = ''.join(out)
    res2 = re.sub(r'(?m)^[ \t]*//[/!].*\n', '', res)
    return res2, dropped


def replace_macro(text, name, repl, fired, label):
    while True:
        mask = rs.code_mask(text)
        calls = list(rs.macro_calls(text, mask, name))
        if not calls:
            return text
        s, e, ob = calls[0]
        inner = text[ob + 1:e - 1]
        text = text[:s] + repl(inner) + text[e:]
        fired.append(label)


def split_top_commas(s):
    mask = rs.code_mask(s)
    parts = []
    depth = 0
    last = 0
    for i, ch in enumerate(s):
        if not mask[i]:
            continue
        if ch in '([{':
            depth += 1
        elif ch in ')]}':
            depth -= 1
        elif ch == ',' and depth == 0:
            parts.append(s[last:i])
            last = i + 1
    parts.append(s[last:])
    return parts


def global_rewrites(text, fired):
    """R1 (abort modelling) and R2 (format!) -- see DESIGN.md section 2.1."""
    text = replace_macro(text, 'assert', lambda inner: 'rt_assert(' + split_top_commas(inner)[0].strip() + ')', fired, 'R1:assert!->rt_assert')
    text = replace_macro(text, 'panic', lambda inner: 'rt_panic()', fired, 'R1:panic!->rt_panic')
    text = replace_macro(text, 'format', lambda inner: 'opaque_string()', fired, 'R2:format!->opaque_string')
    for a, b in (('&mut dyn Storage', '&mut Storage'), ('&dyn Storage', '&Storage')):
        if a in text:
            fired.append('R5:%s->%s' % (a, b))
            text = text.replace(a, b)
    # closure parameter `_` (rejected by Verus) -> a named, unused parameter: `|_|` / `|_: T|`
    mask0 = rs.code_mask(text)
    def _clo(mm):
        if not mask0[mm.start()]:
            return mm.group(0)
        fired.append('R7:closure parameter `_` -> `_unused`')
        return '|_unused' + (mm.group(1) or '') + '|'
    text = re.sub(r'\|\s*_\s*(:[^|]*)?\|', _clo, text)
    # .unwrap() / .expect("..") -> .rt_unwrap()
    mask = rs.code_mask(text)
    out = []
    i = 0
    n = len(text)
    while i < n:
        if mask[i] and text.startswith('.unwrap()', i):
            out.append('.rt_unwrap()')
            fired.append('R1:unwrap->rt_unwrap')
            i += len('.unwrap()')
            continue
        mm = re.match(r'\.expect\s*\(', text[i:i + 12]) if mask[i] and text[i] == '.' else None
        if mm:
            ob = i + mm.end() - 1
            cl = rs.match_close(text, mask, ob)
            out.append('.rt_unwrap()')
            fired.append('R1:expect->rt_unwrap')
            i = cl + 1
            continue
        mm = re.match(r'\.add_attributes?\s*\(', text[i:i + 20]) if mask[i] and text[i] == '.' else None
        if mm:
            ob = i + mm.end() - 1
            cl = rs.match_close(text, mask, ob)
            out.append('.add_attributes_opaque()')
            fired.append('R2:add_attribute(s)->add_attributes_opaque (event attributes are not verified)')
            i = cl + 1
            continue
        out.append(text[i])
        i += 1
    return ''.join(out)


class FnSpec:
    def __init__(self, file, impl, name, tpl_line):
        self.file, self.impl, self.name = file, impl, name
        self.ret = 'r'
        self.sig = []
        self.head = []
        self.inserts = []   # (where, k, regex, lines)
        self.loops = {}     # n -> lines
        self.rewrites = []  # (count, regex, repl, reason)
        self.tpl_line = tpl_line

    @property
    def key(self):
        return '%s::%s%s' % (self.file, (self.impl + '::') if self.impl != '-' else '', self.name)


class Generated:
    def __init__(self):
        self.lines = []
        self.tags = {}        # gen line (1-based) -> (props list, name, fn key or None)
        self.fn_ranges = []   # (first, last, key)
        self.fns = {}         # key -> info dict
        self.items = {}       # key -> info
        self.tpl_of_line = {}  # gen line -> template file:line (for non-repo lines)
        self.probes = []       # (insert after gen line, probe fn name, fn key, lines): precondition vacuity probes

    def add(self, line, fnkey=None, origin=None):
        self.lines.append(line)
        ln = len(self.lines)
        for mm in TAG_RE.finditer(line):
            self.tags[ln] = (mm.group(1).split(','), mm.group(2).strip(), fnkey)
        if origin:
            self.tpl_of_line[ln] = origin
        return ln

    def text(self):
        return '\n'.join(self.lines) + '\n'

    def lemma_probes(self):
        """Hypothesis probes for the hand-written lemmas: `proof fn L(params) requires H ensures ..` gets a sibling
        `proof fn zz_probe_L(params) requires H ensures false {}` which must be rejected (H satisfiable as far as Z3 can tell)."""
        text = self.text()
        mask = rs.code_mask(text)
        out = []
        for mm in rs.find_code(text, mask, r'\b(pub\s+)?(broadcast\s+)?proof fn (\w+)'):
            if mm.group(2):
                continue
            ob = rs.body_open(text, mask, mm.end())
            if ob < 0:
                continue
            head = text[mm.start():ob]
            hm = rs.code_mask(head)
            mr = [x for x in rs.find_code(head, hm, r'\brequires\b')]
            if not mr:
                continue
            me = [x for x in rs.find_code(head, hm, r'\b(ensures|decreases)\b') if x.start() > mr[0].start()]
            req = head[mr[0].start():me[0].start() if me else len(head)].rstrip().rstrip(',')
            sigpart = head[:mr[0].start()].rstrip()
            name = mm.group(3)
            close = rs.match_close(text, mask, ob)
            line_after = text.count('\n', 0, close) + 1
            psig = re.sub(r'\bproof fn\s+\w+', 'proof fn zz_probe_' + name, sigpart, count=1)
            psig = re.sub(r'^pub\s+', '', psig)
            out.append((line_after, 'zz_probe_' + name, None, [psig, req, 'ensures false', '{}']))
        return out

    def text_with_probes(self):
        out = list(self.lines)
        allp = self.probes + self.lemma_probes()
        for after, _name, _key, lines in sorted(allp, key=lambda x: -x[0]):
            out[after:after] = lines
        return '\n'.join(out) + '\n'

    def fn_of_line(self, ln):
        for a, b, k in self.fn_ranges:
            if a <= ln <= b:
                return k
        return None


def extract_fn(spec):
    src, mask = repo_src(spec.file)
    try:
        if spec.impl != '-':
            impls = rs.find_impl(src, mask, spec.impl)
            f = rs.find_fn(src, mask, spec.name, [(ob, cl) for _, ob, cl in impls])
        else:
            # top-level fn: must not be inside an impl/mod; find_fn with uniqueness check over the file
            f = rs.find_fn(src, mask, spec.name)
    except rs.ScanError as e:
        raise GenError('anchor lost for %s: %s' % (spec.key, e))
    raw = src[f['start']:f['close'] + 1]
    info = dict(file=spec.file, impl=spec.impl, name=spec.name,
                line_start=src.count('\n', 0, f['start']) + 1,
                line_end=src.count('\n', 0, f['close']) + 1,
                sha256=hashlib.sha256(raw.encode()).hexdigest(), rewrites=[])
    sig = src[f['sig_start']:f['open']]
    body = src[f['open']:f['close'] + 1]
    attrs_txt = src[f['start']:f['sig_start']]
    _, dropped = strip_attrs(attrs_txt)
    for d in dropped:
        info['rewrites'].append('R3:drop ' + d)
    return sig, body, info


def apply_declared_rewrites(text, spec, info):
    for count, rx, repl, reason in spec.rewrites:
        new, n = re.subn(rx, repl, text)
        if count == -1 and n <= 1:      # `#?`: the construct may be absent (0 or 1 occurrence)
            if n:
                info['rewrites'].append('declared:/%s/=>%s (%s)' % (rx, repl, reason))
            text = new
            continue
        if n != count:
            raise GenError('declared rewrite /%s/ in %s matched %d times, expected %d (code shape changed)' % (rx, spec.key, n, count))
        info['rewrites'].append('declared:/%s/=>%s (%s)' % (rx, repl, reason))
        text = new
    return text


def loop_headers(body):
    """Return list of (kw_start, brace_index) for each loop keyword in body, in textual order."""
    mask = rs.code_mask(body)
    res = []
    for mm in rs.find_code(body, mask, r'\b(for|while|loop)\b'):
        # skip `for` in `impl X for Y` / HRTB (not expected inside bodies)
        ob = rs.body_open(body, mask, mm.end())
        if ob < 0:
            continue
        res.append((mm.start(), ob))
    return res


def render_fn(spec, g, indent=''):
    sig, body, info = extract_fn(spec)
    fired = []
    whole = sig + '\x00' + body
    whole = apply_declared_rewrites(whole, spec, info)
    whole = global_rewrites(whole, fired)
    sig, body = whole.split('\x00')
    for f in sorted(set(fired)):
        info['rewrites'].append('%s x%d' % (f, fired.count(f)))
    # loops: splice invariants (process from last to first so indices stay valid)
    if spec.loops:
        hdrs = loop_headers(body)
        for n in sorted(spec.loops, reverse=True):
            if n < 1 or n > len(hdrs):
                raise GenError('loop #%d not found in %s (has %d loops)' % (n, spec.key, len(hdrs)))
            kw, ob = hdrs[n - 1]
            body = body[:ob] + '\n' + '\n'.join(spec.loops[n]) + '\n' + body[ob:]
    # return value naming
    sig = sig.rstrip()
    if spec.sig:
        mask = rs.code_mask(sig)
        mfn = re.search(r'\bfn\s+\w+', sig)
        po = sig.index('(', mfn.end())
        pc = rs.match_close(sig, mask, po)
        rest = sig[pc + 1:]
        ma = re.match(r'\s*->\s*', rest)
        if ma:
            rt = rest[ma.end():].strip()
            where = ''
            mw = re.search(r'\bwhere\b', rt)
            if mw:
                where = ' ' + rt[mw.start():]
                rt = rt[:mw.start()].strip()
            sig = sig[:pc + 1] + ' -> (%s: %s)%s' % (spec.ret, rt, where)
    body_lines = body.split('\n')
    # inserts
    for where, k, rx, lines in spec.inserts:
        idxs = [i for i, l in enumerate(body_lines) if re.search(rx, l)]
        if len(idxs) < k:
            raise GenError('insert anchor /%s/ #%d not found in %s' % (rx, k, spec.key))
        at = idxs[k - 1] + (1 if where == 'after' else 0)
        body_lines[at:at] = ['\x01' + l for l in lines]
    first = len(g.lines) + 1
    key = spec.key
    for l in sig.split('\n'):
        g.add(indent + l if l.strip() else l, key)
    for l in spec.sig:
        g.add(l, key, origin=spec.tpl_line)
    # body: first line is '{'
    g.add(body_lines[0], key)
    for l in spec.head:
        g.add(l, key, origin=spec.tpl_line)
    for l in body_lines[1:]:
        if l.startswith('\x01'):
            g.add(l[1:], key, origin=spec.tpl_line)
        else:
            g.add(l, key)
    last = len(g.lines)
    g.fn_ranges.append((first, last, key))
    info['gen_lines'] = [first, last]
    g.fns[key] = info
    # vacuity probe for a precondition: the same signature and `requires`, body `unreached()` (which requires false).
    # If Verus ACCEPTS the probe, the precondition is contradictory and everything proved under it is void.
    contract = '\n'.join(spec.sig)
    cm = rs.code_mask(contract)
    mreq = None
    for mm in rs.find_code(contract, cm, r'\brequires\b'):
        mreq = mm
        break
    if mreq is not None:
        mens = None
        for mm in rs.find_code(contract, cm, r'\bensures\b'):
            if mm.start() > mreq.start():
                mens = mm
                break
        req = contract[mreq.start():mens.start() if mens else len(contract)].rstrip().rstrip(',')
        pname = 'zz_probe_' + re.search(r'\bfn\s+(\w+)', sig).group(1)
        psig = re.sub(r'\bfn\s+\w+', 'fn ' + pname, sig, count=1)
        g.probes.append((last, pname, key, [indent + l for l in psig.split('\n')] + [req, '{ vstd::pervasive::unreached() }']))


def render_item(file, kind, name, g):
    src, mask = repo_src(file)
    try:
        st, ist, end = rs.find_item(src, mask, kind, name)
    except rs.ScanError as e:
        raise GenError('anchor lost for %s %s in %s: %s' % (kind, name, file, e))
    raw = src[st:end]
    body, dropped = strip_attrs(src[st:end])
    key = '%s::%s %s' % (file, kind, name)
    g.items[key] = dict(file=file, line_start=src.count('\n', 0, st) + 1, line_end=src.count('\n', 0, end) + 1,
                        sha256=hashlib.sha256(raw.encode()).hexdigest(), dropped_attrs=dropped)
    for l in body.strip('\n').split('\n'):
        g.add(l)
    return dropped


def process(tpl_path, flags, g=None, seen=None):
    g = g or Generated()
    seen = seen if seen is not None else set()
    full = os.path.join(UNITS, tpl_path)
    if full in seen:
        return g
    seen.add(full)
    with open(full) as f:
        lines = f.read().split('\n')
    i = 0
    cond = []  # stack of booleans
    cur = None
    section = None
    last_dropped = []
    while i < len(lines):
        line = lines[i]
        s = line.strip()
        i += 1
        origin = '%s:%d' % (tpl_path, i)
        if s.startswith('//%if '):
            cond.append(s.split()[1] in flags)
            continue
        if s == '//%else':
            cond[-1] = not cond[-1]
            continue
        if s == '//%endif':
            cond.pop()
            continue
        if not all(cond):
            continue
        if cur is not None:
            if s == '//%end':
                render_fn(cur, g)
                cur = None
                section = None
                continue
            if s.startswith('//%%'):
                parts = s[4:].split(None, 1)
                d = parts[0]
                arg = parts[1] if len(parts) > 1 else ''
                if d == 'ret':
                    cur.ret = arg.strip()
                    section = None
                elif d == 'sig':
                    section = cur.sig
                elif d == 'head':
                    section = cur.head
                elif d == 'insert':
                    mm = re.match(r'(before|after)\s+#(\d+)\s+/(.*)/\s*$', arg)
                    if not mm:
                        raise GenError('bad insert directive at %s' % origin)
                    lst = []
                    cur.inserts.append((mm.group(1), int(mm.group(2)), mm.group(3), lst))
                    section = lst
                elif d == 'loop':
                    lst = []
                    cur.loops[int(arg)] = lst
                    section = lst
                elif d == 'rewrite':
                    mm = re.match(r'#(\d+|\?)\s+/(.*)/\s*=>\s*(.*?)\s*##\s*(.*)$', arg)
                    if not mm:
                        raise GenError('bad rewrite directive at %s' % origin)
                    cur.rewrites.append((-1 if mm.group(1) == '?' else int(mm.group(1)), mm.group(2), mm.group(3), mm.group(4)))
                    section = None
                else:
                    raise GenError('unknown directive %s at %s' % (d, origin))
                continue
            if section is None:
                if s:
                    raise GenError('text outside a section at %s' % origin)
                continue
            section.append(line)
            continue
        if s.startswith('//%include '):
            process(s.split(None, 1)[1].strip(), flags, g, seen)
            continue
        if s.startswith('//%item '):
            _, file, kind, name = s.split()
            last_dropped = render_item(file, kind, name, g)
            continue
        if s.startswith('//%require-attr '):
            rx = s.split(None, 1)[1].strip()
            if not any(re.search(rx, d) for d in last_dropped):
                raise GenError('required attribute /%s/ missing on item before %s (assumed derive semantics no longer justified)' % (rx, origin))
            continue
        if s.startswith('//%fn '):
            parts = [p.strip() for p in s[6:].split('|')]
            if len(parts) != 3:
                raise GenError('bad fn directive at %s' % origin)
            cur = FnSpec(parts[0], parts[1], parts[2], origin)
            section = None
            continue
        if s.startswith('//%'):
            raise GenError('unknown directive at %s: %s' % (origin, s))
        g.add(line, None, origin=origin)
    if cond or cur is not None:
        raise GenError('unterminated directive in %s' % tpl_path)
    return g


if __name__ == '__main__':
    import sys
    g = process(sys.argv[1], set(sys.argv[3:]))
    open(sys.argv[2], 'w').write(g.text())
    print(len(g.lines), 'lines', len(g.fns), 'fns', len(g.tags), 'tags')
