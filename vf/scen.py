"""System-level scenario generator and property predicates, evaluated on the REAL contracts running in
cw-multi-test (replay crate, kind "scenario").  Used only to find / replay concrete counterexamples after the
verifier rejected an obligation or could not decide (see check.py); it never decides a property.
"""
import math
import random

D = 10 ** 18
ACTORS = ['alice', 'bob', 'carol', 'mallory']
HOLDERS = ACTORS + ['admin']


def isqrt(n):
    return math.isqrt(n)


def window(x, y, a):
    s = x + a
    if s == 0:
        return False
    r0 = (y * a) % s
    return r0 > 0 and D * (s - r0) < s


def asset_key(a, tokens):
    if 'native' in a:
        return a['native']
    return tokens[a['token']]


class Ctx:
    """Everything a predicate needs about one executed scenario."""

    def __init__(self, case, out):
        self.case = case
        self.out = out
        self.tokens = out.get('tokens', {})
        self.pairs = case['pairs']

    def pair_assets(self, pi):
        return [asset_key(a, self.tokens) for a in self.pairs[pi]['assets']]

    def reserves(self, snap, pi):
        return [int(x) for x in snap['pairs'][pi]['reserves']]

    def pair_decimals(self, pi):
        out = []
        for a in self.pairs[pi]['assets']:
            if 'native' in a:
                out.append(int(self.case.get('native_decimals', {}).get(a['native'], 6)))
            else:
                out.append(int([t['decimals'] for t in self.case['tokens'] if t['name'] == a['token']][0]))
        return out

    def supply(self, snap, pi):
        return int(snap['pairs'][pi]['lp_supply'])

    def bal(self, snap, who, key):
        return int(snap['accounts'].get(who, {}).get(key, '0'))

    def total(self, snap, key):
        t = sum(int(v.get(key, '0')) for v in snap['accounts'].values())
        for i, p in enumerate(snap['pairs']):
            ks = self.pair_assets(i)
            for j in (0, 1):
                if ks[j] == key:
                    t += int(p['reserves'][j])
        return t


def check_scenario(case, out):
    """Return a list of (property id, description, step index) for every violated predicate."""
    v = []
    if 'steps' not in out:
        return v
    cx = Ctx(case, out)
    prev = out['init']
    all_keys = set()
    for i in range(len(case['pairs'])):
        all_keys.update(cx.pair_assets(i))
    last_sim = None
    for k, (st, res) in enumerate(zip(case['steps'], out['steps'])):
        snap = res['snap']
        op = st['op']
        if not res['ok']:
            if snap != prev:
                v.append(('C14', 'rejected %s changed state' % op, k))
                v.append(('C09', 'rejected %s changed state' % op, k))
            if op == 'withdraw' and 'via_token' not in st:
                pi = st['pair']
                r_ = cx.reserves(prev, pi)
                s_ = cx.supply(prev, pi)
                a_ = int(st['amount'])
                held = cx.bal(prev, st['sender'], 'lp%d' % pi)
                if s_ > 0 and 0 < a_ <= held and all(rr * a_ * D >= (rr + 2 * D) * s_ for rr in r_):
                    v.append(('C20', 'withdrawal of %d LP (supply %d, reserves %s: entitlement >= r_i/1e18+2 on both assets) failed: %s' % (a_, s_, r_, res.get('err', '')[-160:]), k))
            prev = snap
            continue
        if op in ('simulate', 'reverse_simulate'):
            last_sim = (st, res)
            prev = snap
            continue
        if st.get('_foreign_withdraw_hook'):
            v.append(('C04', 'withdraw hook sent by %s, which is not the LP token, was accepted' % st['contract'], k))
            v.append(('C14', 'withdraw hook sent by %s, which is not the LP token, was accepted' % st['contract'], k))
        # ---- conservation / third parties (C07) ----
        if op in ('swap', 'provide', 'withdraw', 'router_swap'):
            for key in all_keys:
                if cx.total(prev, key) != cx.total(snap, key):
                    v.append(('C07', 'total of %s changed %d -> %d in %s' % (key, cx.total(prev, key), cx.total(snap, key), op), k))
            involved = {st.get('sender')}
            if st.get('to'):
                involved.add(st['to'])
            if st.get('receiver'):
                involved.add(st['receiver'])
            for who in HOLDERS:
                if who in involved:
                    continue
                if prev['accounts'].get(who) != snap['accounts'].get(who):
                    v.append(('C07', 'bystander %s balances changed in %s' % (who, op), k))
            for who in (st.get('to'), st.get('receiver')):
                if who and who != st.get('sender'):
                    for key, val in snap['accounts'].get(who, {}).items():
                        if int(val) < int(prev['accounts'][who].get(key, '0')):
                            v.append(('C07', 'receiver %s lost %s in %s' % (who, key, op), k))
        if op in ('swap', 'provide', 'withdraw', 'donate') and 'pair' in st:
            pi = st['pair']
            keys = cx.pair_assets(pi)
            r = cx.reserves(prev, pi)
            r2 = cx.reserves(snap, pi)
            s = cx.supply(prev, pi)
            s2 = cx.supply(snap, pi)
            in_window = False
            if op == 'swap':
                oi = st['offer_idx']
                ai = 1 - oi
                a = int(st['amount'])
                named_idx = st.get('named_idx', oi)
                named_amount = int(st.get('named_amount', st['amount']))
                named_key = asset_key(st['named'], cx.tokens) if 'named' in st else keys[named_idx]
                direct_token = st.get('direct') and 'token' in cx.pairs[pi]['assets'][oi]
                delivered = 0 if direct_token else a
                if 'funds' in st and 'native' in cx.pairs[pi]['assets'][oi]:
                    delivered = int(st['funds'].get(keys[oi], '0')) if isinstance(st['funds'], dict) else 0
                attrs = res['res'].get('attrs', {})
                n = int(attrs.get('return_amount', '0'))
                priced_key = attrs.get('offer_asset', named_key)
                priced_amount = int(attrs.get('offer_amount', named_amount))
                pidx = keys.index(priced_key) if priced_key in keys else None
                # C02: the reserve of the asset the trade was priced as offering rises by exactly the offer, delivered in this tx
                if pidx is None:
                    v.append(('C02', 'swap priced in an asset (%s) that is not in the pair' % priced_key, k))
                else:
                    if r2[pidx] - r[pidx] != priced_amount:
                        v.append(('C02', 'priced as offering %d of %s but that reserve moved %d -> %d' % (priced_amount, priced_key, r[pidx], r2[pidx]), k))
                        v.append(('C01', 'swap credited %d of %s, reserve moved %d -> %d' % (priced_amount, priced_key, r[pidx], r2[pidx]), k))
                        v.append(('C03', 'swap credited %d of %s, reserve moved %d -> %d' % (priced_amount, priced_key, r[pidx], r2[pidx]), k))
                    oth = 1 - pidx
                    if r[oth] - r2[oth] != n:
                        v.append(('C02', 'other reserve fell by %d, reported return %d' % (r[oth] - r2[oth], n), k))
                    recv = st.get('to') or st['sender']
                    gained = cx.bal(snap, recv, keys[oth]) - cx.bal(prev, recv, keys[oth])
                    if gained != n:
                        v.append(('C02', 'receiver %s gained %d of %s, reported return %d' % (recv, gained, keys[oth], n), k))
                    # C09: a named native amount must equal the attached funds of that denom
                    if 'native' in cx.pairs[pi]['assets'][pidx]:
                        attached = a if ('funds' not in st and pidx == oi) else (int(st['funds'].get(keys[pidx], '0')) if isinstance(st.get('funds'), dict) else 0)
                        if attached != priced_amount:
                            v.append(('C09', 'swap named %d of native %s with %d attached and succeeded' % (priced_amount, keys[pidx], attached), k))
                    # C10: a swap that succeeded with a limit honours it (decimals-normalised amounts; see pair_assert.rs c10_ok_*)
                    if st.get('max_spread') is not None and r2[pidx] - r[pidx] == priced_amount:
                        sdec = cx.pair_decimals(pi)
                        od_, ad_ = sdec[pidx], sdec[oth]
                        o_ = priced_amount * (10 ** (ad_ - od_) if od_ < ad_ else 1)
                        sc_ = 10 ** (od_ - ad_) if od_ > ad_ else 1
                        rt_ = n * sc_
                        sp_ = int(attrs.get('spread_amount', '0')) * sc_
                        ms_ = int(st['max_spread'])
                        if st.get('belief_price') is not None:
                            p_ = int(st['belief_price'])
                            if p_ > 0 and o_ * D > p_ and ms_ < D and not rt_ * D * p_ > (o_ * D - p_) * (D - ms_ - 1):
                                v.append(('C10', 'swap succeeded with belief price %d and max spread %d although return %d (normalised) is not above (offer/p - 1)(1 - s - 1e-18), offer %d' % (p_, ms_, rt_, o_), k))
                        elif rt_ + sp_ > 0 and not sp_ * D < (ms_ + 1) * (rt_ + sp_):
                            v.append(('C10', 'swap succeeded with max spread %d although spread/(return+spread) = %d/%d' % (ms_, sp_, rt_ + sp_), k))
                    # C01 / C06 on the actual reserves
                    x, y = r[pidx], r[oth]
                    in_window = window(x, y, priced_amount)
                    cr = int(cx.pairs[pi].get('commission') or 3 * 10 ** 15)
                    if not in_window:
                        if r2[0] * r2[1] < r[0] * r[1]:
                            v.append(('C01', 'reserve product fell %d -> %d' % (r[0] * r[1], r2[0] * r2[1]), k))
                        if r2[oth] <= 0 < r[oth]:
                            v.append(('C01', 'ask reserve emptied', k))
                    if r2[pidx] - r[pidx] == priced_amount and cr <= D:
                        sA = x + priced_amount
                        if not ((n + 1) * sA * D > y * priced_amount * (D - cr) and n * sA * D < y * priced_amount * (D - cr) + sA * D):
                            v.append(('C06', 'return %d outside g*(1-c) +- 1 for x=%d y=%d a=%d' % (n, x, y, priced_amount), k))
                    # C12: the preceding simulation of the same offer
                    if last_sim and last_sim[0].get('pair') == pi and last_sim[0].get('idx') == pidx and int(last_sim[0]['amount']) == priced_amount and last_sim[1]['ok'] and last_sim[0]['op'] == 'simulate':
                        q = last_sim[1]['res']
                        if int(q['return']) != n or str(q['spread']) != str(attrs.get('spread_amount')) or str(q['commission']) != str(attrs.get('commission_amount')):
                            v.append(('C12', 'simulation (%s,%s,%s) differs from execution (%d,%s,%s)' % (q['return'], q['spread'], q['commission'], n, attrs.get('spread_amount'), attrs.get('commission_amount')), k))
            if op == 'provide':
                amts = [int(st['amounts'][0]), int(st['amounts'][1])]
                declared = {keys[0]: amts[0], keys[1]: amts[1]}
                if 'assets' in st:
                    declared = {}
                    for a_ in st['assets']:
                        declared.setdefault(asset_key(a_, cx.tokens), int(a_['amount']))
                d = [declared.get(keys[0]), declared.get(keys[1])]
                sender = st['sender']
                recv = st.get('receiver') or sender
                if d[0] is None or d[1] is None:
                    v.append(('C05', 'provision succeeded although the declared assets %s are not the pair assets %s' % (list(declared), keys), k))
                    v.append(('C03', 'provision with foreign asset accepted', k))
                else:
                    for j in (0, 1):
                        if r2[j] - r[j] != d[j]:
                            v.append(('C05', 'declared deposit %d of %s but reserve moved %d -> %d' % (d[j], keys[j], r[j], r2[j]), k))
                        if cx.bal(prev, sender, keys[j]) - cx.bal(snap, sender, keys[j]) != d[j]:
                            v.append(('C05', 'caller paid %d of %s, declared %d' % (cx.bal(prev, sender, keys[j]) - cx.bal(snap, sender, keys[j]), keys[j], d[j]), k))
                        if 'native' in cx.pairs[pi]['assets'][j]:
                            attached = d[j] if 'funds' not in st else int(st['funds'].get(keys[j], '0'))
                            if attached != d[j]:
                                v.append(('C09', 'provide named %d of native %s with %d attached and succeeded' % (d[j], keys[j], attached), k))
                    m = s2 - s
                    got = cx.bal(snap, recv, 'lp%d' % pi) - cx.bal(prev, recv, 'lp%d' % pi)
                    if s > 0:
                        if not (m >= 1 and m * r[0] <= d[0] * s and m * r[1] <= d[1] * s and ((m + 1) * r[0] > d[0] * s or (m + 1) * r[1] > d[1] * s)):
                            v.append(('C05', 'minted %d for deposits %s into reserves %s supply %d' % (m, d, r, s), k))
                        if got != m:
                            v.append(('C05', 'receiver got %d LP, supply grew %d' % (got, m), k))
                    else:
                        if s2 != isqrt(d[0] * d[1]):
                            v.append(('C05', 'first supply %d != floor(sqrt(%d*%d))' % (s2, d[0], d[1]), k))
                        if int(snap['pairs'][pi]['lp_self']) != 1 or got != s2 - 1:
                            v.append(('C05', 'first provision: reserved unit %s, receiver got %d of %d' % (snap['pairs'][pi]['lp_self'], got, s2), k))
                        wl = cx.pairs[pi].get('whitelist', [])
                        mins = [int(x) for x in cx.pairs[pi].get('min', ['0', '0'])]
                        if sender not in wl or d[0] < mins[0] or d[1] < mins[1]:
                            v.append(('C05', 'first provision accepted from %s with %s (whitelist %s, minimums %s)' % (sender, d, wl, mins), k))
                    if st.get('slippage') is not None and s > 0 and d[0] and d[1] and r[0] and r[1]:
                        t = int(st['slippage'])
                        for (a_, b_, x_, y_) in ((d[0], d[1], r[0], r[1]), (d[1], d[0], r[1], r[0])):
                            if not a_ * (D - t) * y_ < (x_ * D + 2 * y_) * b_:
                                v.append(('C15', 'provision accepted outside tolerance: d=%s r=%s t=%d' % (d, r, t), k))
            if op == 'withdraw':
                a = int(st['amount'])
                sender = st['sender']
                if s - s2 != a:
                    v.append(('C04', 'supply fell by %d, burned %d' % (s - s2, a), k))
                if cx.bal(prev, sender, 'lp%d' % pi) - cx.bal(snap, sender, 'lp%d' % pi) != a:
                    v.append(('C04', 'holder LP fell by %d, burned %d' % (cx.bal(prev, sender, 'lp%d' % pi) - cx.bal(snap, sender, 'lp%d' % pi), a), k))
                for j in (0, 1):
                    x = r[j] - r2[j]
                    got = cx.bal(snap, sender, keys[j]) - cx.bal(prev, sender, keys[j])
                    if got != x:
                        v.append(('C04', 'holder received %d of %s, reserve fell %d' % (got, keys[j], x), k))
                    if s > 0 and not (x * s <= r[j] * a and x * D * s + r[j] * s + D * s > r[j] * a * D):
                        v.append(('C04', 'refund %d of %s outside (r*a/S - r/1e18 - 1, r*a/S] for r=%d a=%d S=%d' % (x, keys[j], r[j], a, s), k))
                        v.append(('C03', 'refund %d of %s outside bounds for r=%d a=%d S=%d' % (x, keys[j], r[j], a, s), k))
            # C03: share value never decreases
            if s > 0 and s2 > 0 and not in_window:
                if r2[0] * r2[1] * s * s < r[0] * r[1] * s2 * s2:
                    v.append(('C03', 'reserve0*reserve1/supply^2 decreased in %s: (%d,%d,%d) -> (%d,%d,%d)' % (op, r[0], r[1], s, r2[0], r2[1], s2), k))
        if op != 'simulate':
            last_sim = None
        prev = snap
    return v


# ---------------------------------------------------------------- generator

def rnd_mag(rng, cls):
    if cls == 'small':
        return rng.randrange(10 ** 5, 10 ** 10)
    if cls == 'mid':
        return rng.randrange(10 ** 12, 10 ** 15)
    if cls == 'big':
        return rng.randrange(10 ** 17, 10 ** 25)
    return rng.randrange(10 ** 26, 10 ** 29)


def near_denoms(key):
    """Bank denoms that are NOT `key` but look like it (extension, truncation, prefix, other case)."""
    return [key + 'x', key[:-1], 'x' + key, key.upper()]


def junk_denom(rng, key):
    return rng.choice(['ujunk'] + near_denoms(key))


def gen_scenario(rng):
    kind = rng.choice(['nn', 'nt', 'tn', 'tt'])
    dec = rng.choice([(6, 6), (18, 18), (6, 18), (18, 6)])
    n1_denom = rng.choice(['uaura', 'uaura', 'uaura', 'ibc/27394FB092D2ECCD', 'factory/halo1xyz/sub.token-1', 'ibc/27394FB092D2ECCD56123C74F36E4C1F926001CEADA9CA97EA622B25F41E5EB2'])
    mk = {'n0': {'native': 'uusd'}, 'n1': {'native': n1_denom}, 't0': {'token': 'A'}, 't1': {'token': 'B'}}
    assets = [mk[('n' if kind[0] == 'n' else 't') + '0'], mk[('n' if kind[1] == 'n' else 't') + '1']]
    cr = rng.choice(['3000000000000000', '0', '300000000000000000', '3333333333333333', '30000000000000000'])
    big = str(10 ** 33)
    natives = {a: dict([('uusd', big), (n1_denom, big), ('ujunk', big)] + [(j, big) for k_ in ('uusd', n1_denom) for j in near_denoms(k_)]) for a in ACTORS}
    natives['admin'] = {'uusd': '10', n1_denom: '10'}
    tokens = [{'name': 'A', 'decimals': dec[0], 'balances': {a: big for a in ACTORS}}, {'name': 'B', 'decimals': dec[1], 'balances': {a: big for a in ACTORS}}]
    mins = [str(rng.choice([0, 0, 1000])), str(rng.choice([0, 0, 1000]))]
    case = dict(kind='scenario', natives=natives, tokens=tokens, native_decimals={'uusd': dec[0], n1_denom: dec[1]}, watch=HOLDERS,
                pairs=[dict(assets=assets, commission=cr, whitelist=['alice'], min=mins)], steps=[])
    cls0 = rng.choice(['small', 'mid', 'big', 'huge'])
    cls1 = rng.choice(['small', 'mid', 'big', 'huge'])
    r0, r1 = rnd_mag(rng, cls0), rnd_mag(rng, cls1)
    steps = case['steps']
    if rng.random() < 0.15:
        steps.append(dict(op='provide', pair=0, sender=rng.choice(['bob', 'mallory']), amounts=[str(r0), str(r1)]))
    if rng.random() < 0.12:
        # dust (or more) of one or both assets sits in the pair before the first provision
        for idx in rng.choice([[0], [1], [0, 1], [0, 1]]):
            steps.append(dict(op='donate', pair=0, sender='mallory', idx=idx, amount=str(rng.choice([1, 2, 1000, 10 ** 9]))))
    steps.append(dict(op='provide', pair=0, sender='alice', amounts=[str(r0), str(r1)]))
    shape = rng.random()
    if shape < 0.12:
        # small supply, then a large donation: reserve/supply ratio far above 1e18
        r0, r1 = rng.randrange(500, 5000), rng.randrange(500, 5000)
        steps[-1]['amounts'] = [str(r0), str(r1)]
        steps.append(dict(op='donate', pair=0, sender='mallory', idx=rng.randrange(2), amount=str(rng.choice([10 ** 21, 10 ** 24, 10 ** 27]))))
        steps.append(dict(op='withdraw', pair=0, sender='alice', amount=str(max(1, isqrt(r0 * r1) // rng.choice([2, 3, 10])))))
    elif shape < 0.24:
        # reserves near the 2^128/1e18 product ceiling, then a donation on top
        r0 = r1 = 3 * 10 ** 29
        steps[-1]['amounts'] = [str(10 ** 18), str(10 ** 18)]
        steps.append(dict(op='provide', pair=0, sender='alice', amounts=[str(r0), str(r1)]))
        steps.append(dict(op='donate', pair=0, sender='mallory', idx=rng.randrange(2), amount=str(rng.choice([10 ** 29, 10 ** 31, 10 ** 32]))))
        steps.append(dict(op='withdraw', pair=0, sender='alice', amount=str(rng.choice([10 ** 29, 2 * 10 ** 29, 10 ** 27]))))
    est = [r0, r1]
    sup = isqrt(r0 * r1)
    n = rng.randrange(3, 8)
    for _ in range(n):
        c = rng.random()
        natd = [a_['native'] for a_ in assets if 'native' in a_]
        if natd and rng.random() < 0.12:
            # the factory owner re-registers the (unchanged) decimals of one of the pair's native assets: the factory tells the pair,
            # whose stored assets / balances must be what they were
            dn = rng.choice(natd)
            steps.append(dict(op='add_native_decimals', sender='admin', denom=dn, decimals=case['native_decimals'][dn]))
        if c < 0.40:
            oi = rng.randrange(2)
            amt = max(1, int(est[oi] * rng.choice([1e-6, 1e-3, 0.01, 0.3, 1.0, 3.0])) + rng.randrange(0, 3))
            if rng.random() < 0.1:
                amt = rng.randrange(1, 10)
            st = dict(op='swap', pair=0, sender=rng.choice(['bob', 'mallory']), offer_idx=oi, amount=str(amt))
            if rng.random() < 0.3:
                st['to'] = 'carol'
            if rng.random() < 0.3:
                # a spread limit, with or without a belief price around the pool price (raw 10^18 atomics, in raw units of the two assets)
                st['max_spread'] = str(rng.choice([0, 10 ** 15, 10 ** 16, 10 ** 17, 5 * 10 ** 17, D]))
                if rng.random() < 0.6 and est[1 - oi] > 0:
                    pool_price = est[oi] * D // max(1, est[1 - oi])
                    st['belief_price'] = str(max(1, int(pool_price * rng.choice([0.5, 0.9, 1.0, 1.0, 1.1, 2.0]))))
            is_native = 'native' in assets[oi]
            adv = rng.random()
            if adv < 0.35:
                if is_native:
                    ch = rng.randrange(8)
                    key = assets[oi]['native']
                    if ch == 7:
                        # the declared coin is attached exactly, plus an unrelated extra coin (not an asset of the pair: attaching the pair's other
                        # asset would be a donation to the ask reserve in the same transaction, which the settlement predicates do not model)
                        st['funds'] = {key: str(amt), 'ujunk': str(rng.choice([1, amt, 10 * amt + 7]))}
                    if ch == 5 and rng.random() < 0.5:
                        # offers an honestly attached native denom that is NOT an asset of the pair
                        st['named'] = {'native': 'ujunk'}
                        st['funds'] = {'ujunk': str(amt)}
                    elif ch == 5:
                        st['named_amount'] = '0'            # declares nothing, attaches amt
                    elif ch == 6:
                        st['named_amount'] = str(amt + rng.choice([1, amt]))   # declares more than attached (coin present, smaller)
                    if ch == 0:
                        st['funds'] = {key: str(max(0, amt - rng.randrange(1, amt + 1)))}
                    elif ch == 1:
                        st['funds'] = {key: str(amt + rng.randrange(1, 1000))}
                    elif ch == 2:
                        st['funds'] = {junk_denom(rng, key): str(amt)}
                    elif ch == 3:
                        st['funds'] = {junk_denom(rng, key): str(amt), key: str(amt // 2)}
                    elif ch == 4:
                        st['named_idx'] = 1 - oi
                else:
                    ch = rng.randrange(4)
                    if ch == 0:
                        st['named_idx'] = 1 - oi
                    elif ch == 1:
                        st['named_amount'] = str(amt + rng.randrange(1, 1000))
                    elif ch == 2:
                        st['direct'] = True
                    else:
                        st['direct'] = True
                        st['funds'] = {'ujunk': str(amt)}
            steps.append(dict(op='simulate', pair=0, idx=st.get('named_idx', oi), amount=st.get('named_amount', st['amount'])))
            steps.append(st)
            est[oi] += amt
        elif c < 0.65:
            f = rng.choice([1e-4, 0.01, 0.5, 2.0])
            d0 = max(1, int(est[0] * f))
            d1 = max(1, int(est[1] * f * rng.choice([1, 1, 1, 0.5, 2, 1.000001])))
            st = dict(op='provide', pair=0, sender=rng.choice(['alice', 'bob']), amounts=[str(d0), str(d1)])
            if rng.random() < 0.3:
                st['receiver'] = 'carol'
            if rng.random() < 0.3:
                st['reverse_order'] = True
            if rng.random() < 0.3:
                st['slippage'] = str(rng.choice([0, 10 ** 15, 10 ** 16, 5 * 10 ** 17, D]))
            adv = rng.random()
            if adv < 0.3:
                ch = rng.randrange(4)
                nat = [j for j in (0, 1) if 'native' in assets[j]]
                if ch == 0 and nat:
                    j = rng.choice(nat)
                    k_ = assets[j]['native']
                    amts = [d0, d1]
                    st['funds'] = {assets[i]['native']: str(amts[i]) for i in nat}
                    st['funds'][k_] = str(max(0, amts[j] + rng.choice([-1, 1, -amts[j]])))
                    if rng.random() < 0.4:
                        # the named denom is not attached at all; a look-alike denom carries the amount instead
                        del st['funds'][k_]
                        st['funds'][junk_denom(rng, k_)] = str(amts[j])
                elif ch == 1 and nat:
                    # second declared asset replaced by an unrelated attached denom
                    j = rng.randrange(2)
                    amts = [d0, d1]
                    decl = []
                    for i in (0, 1):
                        a_ = dict(assets[i])
                        a_['amount'] = str(amts[i])
                        decl.append(a_)
                    jd = junk_denom(rng, assets[j]['native']) if 'native' in assets[j] else 'ujunk'
                    decl[j] = {'native': jd, 'amount': str(amts[j])}
                    if rng.random() < 0.5:
                        decl.reverse()
                    st['assets'] = decl
                    f_ = {jd: str(amts[j])}
                    for i in nat:
                        if i != j:
                            f_[assets[i]['native']] = str(amts[i])
                    st['funds'] = f_
                elif ch == 2:
                    st['allowances'] = [str(d0 * 2), str(d1 * 2)]
            steps.append(st)
            est[0] += d0
            est[1] += d1
        elif c < 0.9:
            frac = rng.choice([1e-6, 0.001, 0.1, 0.618, 0.9])
            amt = max(1, int(sup * frac))
            if rng.random() < 0.2:
                # LP tokens parked in the pair by a plain transfer (not a withdrawal): they must not change what anyone is paid
                parked = max(1, int(sup * rng.choice([1e-3, 0.05, 0.2])))
                steps.append(dict(op='exec_raw', contract='lp0', sender='alice', msg={'transfer': {'recipient': '$pair0', 'amount': str(parked)}}))
                tok = [a_['token'] for a_ in assets if 'token' in a_]
                if tok and rng.random() < 0.5:
                    # a cw20 ASSET of the pair sends the withdraw hook: only the LP token may
                    steps.append(dict(op='exec_raw', contract=rng.choice(tok), sender='mallory', _foreign_withdraw_hook=True,
                                      msg={'send': {'contract': '$pair0', 'amount': str(min(parked, 10 ** 6)), 'msg': 'eyJ3aXRoZHJhd19saXF1aWRpdHkiOnt9fQ=='}}))
            steps.append(dict(op='withdraw', pair=0, sender='alice', amount=str(amt)))
        else:
            idx = rng.randrange(2)
            steps.append(dict(op='donate', pair=0, sender='mallory', idx=idx, amount=str(max(1, int(est[idx] * rng.choice([1e-3, 1, 100]))))))
    return case


def search_scenarios(run_cases, pid, rng, budget):
    """Run random scenarios on the real contracts until a predicate of property `pid` is violated."""
    done = 0
    batch = 40
    while done < budget:
        cases = [gen_scenario(rng) for _ in range(batch)]
        outs = run_cases(cases)
        if outs is None:
            return None
        for c, o in zip(cases, outs):
            if not o.get('ok'):
                continue
            for (p, why, k) in check_scenario(c, o['out']):
                if p == pid:
                    return dict(case=c, result=dict(step=k, steps_ok=[s['ok'] for s in o['out']['steps']]), why='%s (step %d: %s)' % (why, k, c['steps'][k]['op']), replay_kind='scenario:' + pid)
        done += batch
    return None


# ================================================================ registry / decimals / authority / routes

def _ident(a):
    return ('n', a['n'].encode()) if 'n' in a else ('t', bytes.fromhex(a['t']))


def gen_key_cases(rng, budget):
    pool = ['a', 'aa', 'aaa', 'aaab', 'b', 'bccc', 'ccc', 'uaura', 'uatom', 'uusd', 'ibc/27394FB092D2ECCD56123C74F36E4C1F926001CEADA9CA97EA622B25F41E5EB2', 'x' * 54, 'ab', 'abc', 'c', 'bc']
    ids = []
    for s in pool:
        ids.append({'n': s})
        ids.append({'t': s.encode().hex()})
    for _ in range(10):
        b = bytes(rng.randrange(256) for _ in range(rng.choice([1, 2, 20, 32])))
        ids.append({'t': b.hex()})
    # identifiers containing tag-valued / small bytes at various split points (length-prefix and kind-tag confusions)
    for s in (b'ua', b'ub\x01uc', b'ua\x01ub', b'uc', b'ua\x00ub', b'ub\x00uc', b'\x01', b'\x00', b'a\x01', b'\x01a', b'ua\x01', b'\x01ub'):
        ids.append({'t': s.hex()})
        try:
            ids.append({'n': s.decode()})
        except Exception:
            pass
    out = []
    # long identifiers (256 bytes and more) with a shared prefix: a length prefix narrower than the identifier length would collide here
    for n in (255, 256, 300):
        pz = 'p' * n
        for (a1, b1, a2, b2) in (('aaa', pz + '\x01c', 'aaa\x01' + pz, 'c'), ('q' * (n + 1), 'r', 'q', 'q' * n + '\x00r')):
            for (x, y) in ((a1, b1), (a2, b2)):
                out.append(dict(kind='pair_key', a={'n': x}, b={'n': y}))
                out.append(dict(kind='pair_key', a={'n': y}, b={'n': x}))
    for _ in range(budget):
        a, b = rng.choice(ids), rng.choice(ids)
        out.append(dict(kind='pair_key', a=a, b=b))
        out.append(dict(kind='pair_key', a=b, b=a))
    return out


def check_key_cases(cases, outs):
    """C16: symmetric in the arguments, injective over unordered identifier sets."""
    seen = {}
    for c, o in zip(cases, outs):
        if not o.get('ok'):
            continue
        k = o['out']['key']
        s = frozenset([_ident(c['a']), _ident(c['b'])]) if _ident(c['a']) != _ident(c['b']) else (_ident(c['a']),)
        if s in [x for x in seen.get(k, [])]:
            continue
        for other in seen.get(k, []):
            if other != s:
                return dict(case=c, result=o, why='two different asset sets share the registry key %s: %s and %s' % (k, sorted(map(str, s)), sorted(map(str, other))), replay_kind='pair_key')
        seen.setdefault(k, []).append(s)
    bykey = {}
    for c, o in zip(cases, outs):
        if o.get('ok'):
            s = frozenset([_ident(c['a']), _ident(c['b'])])
            if s in bykey and bykey[s] != o['out']['key']:
                return dict(case=c, result=o, why='the same asset set maps to two keys depending on argument order: %s vs %s' % (bykey[s], o['out']['key']), replay_kind='pair_key')
            bykey[s] = o['out']['key']
    return None


NATIVE_POOL = ['uaura', 'uatom', 'uusd', 'aaa', 'aaab', 'bccc', 'ccc', 'uau', 'ibc/27394FB092D2ECCD', 'ibc/27394fb092D2eccd']   # bank denoms are case-sensitive: the last two are different coins


def gen_registry_scenario(rng):
    """C16 / C17 / C14 at system level: creations, lookups in both orders, decimals registrations, foreign callers."""
    nat = rng.sample(NATIVE_POOL, rng.randrange(3, 6))
    decs = {d: rng.choice([6, 8, 9, 18]) for d in nat}
    tdec = [rng.choice([6, 18]), rng.choice([6, 8, 18])]
    natives = {'admin': {d: '10' for d in nat}, 'bob': {'uusd': '1000'}}
    case = dict(kind='scenario', natives=natives, tokens=[{'name': 'A', 'decimals': tdec[0], 'balances': {'alice': '1000'}}, {'name': 'B', 'decimals': tdec[1], 'balances': {'alice': '1000'}}],
                native_decimals=decs, watch=HOLDERS, pairs=[], steps=[], _truth=dict(native=dict(decs), token={'A': tdec[0], 'B': tdec[1]}))
    assets = [{'native': d} for d in nat] + [{'token': 'A'}, {'token': 'B'}]
    steps = case['steps']
    created = []
    for _ in range(rng.randrange(3, 9)):
        c = rng.random()
        if c < 0.45:
            a, b = rng.sample(assets, 2)
            if rng.random() < 0.08:
                b = a
            if rng.random() < 0.1:
                b = {'native': 'unregistered'}
            elif rng.random() < 0.12:
                # a look-alike of a registered denom (other case / extended / truncated): a different, unregistered bank denom
                d0 = rng.choice(nat)
                cand = [x for x in (d0.lower(), d0.upper(), d0 + 'x', d0[:-1], d0.swapcase()) if x not in nat and len(x) >= 3]
                if cand:
                    b = {'native': rng.choice(cand)}
            if created and rng.random() < 0.3:
                a, b = rng.choice(created)
                if rng.random() < 0.7:
                    a, b = b, a
            sender = 'admin' if rng.random() < 0.85 else 'mallory'
            cr = rng.choice([None, '3000000000000000', '1000000000000000000', '1000000000000000001', '500000000000000000'])
            steps.append(dict(op='create_pair', sender=sender, assets=[a, b], whitelist=['alice'], min=[str(rng.choice([0, 5])), str(rng.choice([0, 7]))], commission=cr))
            created.append((a, b))
        elif c < 0.8 and created:
            a, b = rng.choice(created)
            if rng.random() < 0.5:
                a, b = b, a
            steps.append(dict(op='query_pair', assets=[a, b]))
        else:
            d = rng.choice(nat)
            sender = 'admin' if rng.random() < 0.85 else 'mallory'
            st_ = dict(op='add_native_decimals', sender=sender, denom=d, decimals=rng.choice([6, 8, 9, 10, 18, 0, 24, 255]))
            if rng.random() < 0.4:
                st_['funds'] = {d: str(rng.choice([1, 5]))}     # the owner tops the factory up in the same call
            steps.append(st_)
    # finish with lookups of every created pair in both orders
    for (a, b) in list(created):
        steps.append(dict(op='query_pair', assets=[a, b]))
        steps.append(dict(op='query_pair', assets=[b, a]))
    return case


def _akey(a):
    return ('n:' + a['native']) if 'native' in a else ('t:' + a['token'])


def check_registry_scenario(case, out):
    v = []
    if 'steps' not in out:
        return v
    truth_n = dict(case['_truth']['native'])
    truth_t = case['_truth']['token']
    registered = {}   # frozenset of asset keys -> (index in world pairs list)
    order = []
    prev = out['init']
    for k, (st, res) in enumerate(zip(case['steps'], out['steps'])):
        snap = res['snap']
        op = st['op']
        if op == 'create_pair':
            a, b = st['assets']
            s = frozenset([_akey(a), _akey(b)])
            expect_ok = st.get('sender', 'admin') == 'admin' and _akey(a) != _akey(b) and s not in registered
            for x in (a, b):
                if 'native' in x and x['native'] not in truth_n:
                    expect_ok = False
            if st.get('commission') and int(st['commission']) > D:
                expect_ok = False
            if res['ok'] and st.get('sender', 'admin') != 'admin':
                v.append(('C14', 'pair creation by a non-owner succeeded', k))
            if res['ok'] and _akey(a) == _akey(b):
                v.append(('C16', 'pair with two identical assets created', k))
            if res['ok'] and s in registered:
                v.append(('C16', 'asset set %s registered twice' % sorted(s), k))
            if res['ok'] and not expect_ok and st.get('sender', 'admin') == 'admin' and _akey(a) != _akey(b) and s not in registered:
                v.append(('C16', 'creation that must be rejected (unregistered denom / commission above 1) succeeded: %s' % st['assets'], k))
            if not res['ok'] and expect_ok:
                v.append(('C16', 'creation of a fresh, valid asset set %s was rejected: %s' % (sorted(s), res.get('err', '')[-120:]), k))
            if res['ok']:
                registered[s] = len(order)
                order.append((a, b))
        elif op == 'query_pair':
            a, b = st['assets']
            s = frozenset([_akey(a), _akey(b)])
            if s in registered:
                if not res['ok']:
                    v.append(('C16', 'lookup of registered set %s in order %s failed' % (sorted(s), [_akey(a), _akey(b)]), k))
                else:
                    fac, own = res['res']['factory'], res['res']['own']
                    idx = registered[s]
                    want_addr = snap['pairs'][idx]['addr']
                    if fac['contract_addr'] != want_addr:
                        v.append(('C16', 'lookup of %s resolved to pair %s, created pair is %s' % (sorted(s), fac['contract_addr'], want_addr), k))
                    for f in ('asset_infos', 'liquidity_token', 'asset_decimals', 'requirements', 'commission_rate'):
                        if fac[f] != own[f]:
                            v.append(('C16', 'factory record field %s = %s differs from the pair\'s own report %s' % (f, fac[f], own[f]), k))
                            if f == 'asset_decimals':
                                v.append(('C17', 'factory record decimals %s differ from the pair\'s own %s' % (fac[f], own[f]), k))
            elif res['ok']:
                v.append(('C16', 'lookup of unregistered set %s succeeded' % sorted(s), k))
        elif op == 'add_native_decimals':
            if res['ok'] and st.get('sender', 'admin') != 'admin':
                v.append(('C14', 'decimals registration by a non-owner succeeded', k))
            if res['ok']:
                for i_, (pp, pn) in enumerate(zip(prev.get('pairs', []), snap.get('pairs', []))):
                    if pp.get('reserves') != pn.get('reserves'):
                        v.append(('C07', 'decimals registration changed the balances of pair %d: %s -> %s' % (i_, pp.get('reserves'), pn.get('reserves')), k))
            if res['ok']:
                truth_n[st['denom']] = st['decimals']
        if not res['ok'] and snap != prev:
            v.append(('C14', 'rejected %s changed state' % op, k))
        # after every step: each registered pair's own decimals == factory record == truth in each position
        for i, (a, b) in enumerate(order):
            if i >= len(snap['pairs']):
                continue
            p = snap['pairs'][i]
            own, fac = p['own_decimals'], p['factory_decimals']
            # the world lists asset order as stored by the pair (creation order)
            want = []
            for x in (a, b):
                want.append(truth_n.get(x['native']) if 'native' in x else truth_t[x['token']])
            if own != fac:
                v.append(('C17', 'pair %d: own decimals %s != factory record %s after %s' % (i, own, fac, op), k))
            if own is not None and own != want:
                v.append(('C17', 'pair %d %s: decimals %s, registered values are %s after %s' % (i, [_akey(a), _akey(b)], own, want, op), k))
                if op == 'create_pair':
                    v.append(('C16', 'pair %d recorded decimals %s, true decimals %s' % (i, own, want), k))
        prev = snap
    return v


def gen_auth_scenario(rng):
    """C14: every privileged / internal entry point, called by strangers and by former owners."""
    natives = {'admin': {'uusd': '10', 'uaura': '10'}, 'mallory': {'uusd': '1000000', 'uaura': '1000000'}, 'alice': {'uusd': str(10 ** 12), 'uaura': str(10 ** 12)}}
    big = str(10 ** 20)
    case = dict(kind='scenario', natives=natives, tokens=[{'name': 'A', 'decimals': 6, 'balances': {'alice': big, 'mallory': big}}, {'name': 'R', 'decimals': 6, 'balances': {'mallory': big}}],
                native_decimals={'uusd': 6, 'uaura': 6}, watch=HOLDERS,
                pairs=[dict(assets=[{'native': 'uusd'}, {'token': 'A'}], whitelist=['alice'], commission='3000000000000000'), dict(assets=[{'native': 'uusd'}, {'native': 'uaura'}], whitelist=['alice'], commission='3000000000000000')], steps=[])
    steps = case['steps']
    steps.append(dict(op='provide', pair=0, sender='alice', amounts=['1000000', '2000000']))
    steps.append(dict(op='provide', pair=1, sender='alice', amounts=['1000000', '3000000']))
    owner = 'admin'
    former = []
    for _ in range(rng.randrange(4, 9)):
        who = rng.choice(['mallory', 'bob'] + former + [owner])
        c = rng.randrange(10)
        exp = None
        if c == 0:
            new = rng.choice(['carol', 'bob', None])
            ids = rng.choice([None, 77])
            msg = {'update_config': {'owner': new, 'token_code_id': ids, 'pair_code_id': None}}
            st = dict(op='exec_raw', contract='factory', sender=who, msg=msg, _auth=(who == owner))
            if who == owner and new:
                st['_new_owner'] = new
            steps.append(st)
            if who == owner and new:
                former.append(owner)
                owner = new
            continue
        if c == 1:
            st = dict(op='add_native_decimals', sender=who, denom='uusd', decimals=rng.choice([6, 7]), _auth=(who == owner), _needs_owner=True)
        elif c == 2:
            st = dict(op='exec_raw', contract='factory', sender=who, msg={'migrate_pair': {'contract': '$pair0', 'code_id': None}}, _auth=(who == owner), _may_fail=True)
        elif c == 3:
            st = dict(op='exec_raw', contract='pair%d' % rng.randrange(2), sender=who, msg={'update_native_token_decimals': {'denom': rng.choice(['uusd', 'uaura', 'zzz']), 'asset_decimals': [rng.choice([3, 18]), rng.choice([0, 18])]}}, _auth=False)
        elif c == 4:
            st = dict(op='exec_raw', contract='router', sender=who, msg={'assert_minimum_receive': {'asset_info': {'native_token': {'denom': 'uusd'}}, 'prev_balance': '0', 'minimum_receive': rng.choice(['0', '1', '1000000000']), 'receiver': who}}, _auth=False)
        elif c == 5:
            st = dict(op='exec_raw', contract='router', sender=who, funds=rng.choice([{}, {'uusd': '1000'}]), msg={'execute_swap_operation': {'operation': {'halo_swap': {'offer_asset_info': {'native_token': {'denom': 'uusd'}}, 'ask_asset_info': {'token': {'contract_addr': '$tok:A'}}}}, 'to': rng.choice([None, who])}}, _auth=False)
        elif c == 6:
            # withdraw hook sent through a token that is not the pair's LP token
            st = dict(op='withdraw', pair=0, sender='mallory', amount='1000', via_token=rng.choice(['A', 'R']), _auth=False)
        elif c == 7:
            # swap hook from a cw20 that is not an asset of the pair
            st = dict(op='exec_raw', contract='R', sender='mallory', msg={'send': {'contract': '$pair0', 'amount': '1000', 'msg': '$b64:{"swap":{"offer_asset":{"info":{"token":{"contract_addr":"$tok:%s"}},"amount":"1000"},"belief_price":null,"max_spread":null,"to":null}}' % rng.choice(['A', 'R'])}}, _auth=False)
        elif c == 8:
            # the router's cw20 hook called directly, claiming the router itself as the hook sender, with one of the router's INTERNAL messages as payload
            inner = rng.choice(['{"execute_swap_operation":{"operation":{"halo_swap":{"offer_asset_info":{"native_token":{"denom":"uusd"}},"ask_asset_info":{"token":{"contract_addr":"$tok:A"}}}},"to":null}}',
                                '{"assert_minimum_receive":{"asset_info":{"native_token":{"denom":"uusd"}},"prev_balance":"0","minimum_receive":"0","receiver":"mallory"}}'])
            st = dict(op='exec_raw', contract='router', sender=who, msg={'receive': {'sender': rng.choice(['$router', '$router', who]), 'amount': '1000', 'msg': '$b64:' + inner}}, _auth=False)
        else:
            st = dict(op='create_pair', sender=who, assets=[{'native': 'uaura'}, {'token': 'A'}], whitelist=['alice'], _auth=(who == owner), _once=True)
        steps.append(st)
    # final probe: the current owner can still act, every former owner cannot
    for f in [x for x in former[-2:] if x != owner]:
        steps.append(dict(op='exec_raw', contract='factory', sender=f, msg={'update_config': {'owner': None, 'token_code_id': 5, 'pair_code_id': None}}, _auth=False))
    steps.append(dict(op='exec_raw', contract='factory', sender=owner, msg={'update_config': {'owner': None, 'token_code_id': 6, 'pair_code_id': None}}, _auth=True, _must=True))
    return case


def check_auth_scenario(case, out):
    v = []
    if 'steps' not in out:
        return v
    prev = out['init']
    for k, (st, res) in enumerate(zip(case['steps'], out['steps'])):
        snap = res['snap']
        if '_auth' in st:
            if res['ok'] and not st['_auth']:
                v.append(('C14', '%s by %s succeeded although the caller is not the required authority: %s' % (st['op'], st.get('sender'), str(st.get('msg', ''))[:160]), k))
            if not res['ok'] and st['_auth'] and st.get('_must'):
                v.append(('C14', 'the current owner %s was rejected: %s' % (st.get('sender'), res.get('err', '')[-120:]), k))
        if not res['ok'] and snap != prev:
            v.append(('C14', 'rejected call changed state', k))
        prev = snap
    return v


def gen_route_scenario(rng):
    """C11 / C13 / C12(router): routes of 1..4 hops over a chain of pairs, both entry points."""
    natives = {'admin': {'uusd': '10', 'uaura': '10'}}
    big = str(10 ** 30)
    for a in ACTORS:
        natives[a] = {'uusd': big, 'uaura': big}
    toks = ['A', 'B', 'C']
    case = dict(kind='scenario', natives=natives, tokens=[{'name': t, 'decimals': rng.choice([6, 18]), 'balances': {a: big for a in ACTORS}} for t in toks],
                native_decimals={'uusd': 6, 'uaura': 6}, watch=HOLDERS, pairs=[], steps=[])
    nodes = [{'native': 'uusd'}, {'token': 'A'}, {'token': 'B'}, {'native': 'uaura'}, {'token': 'C'}]
    rng.shuffle(nodes)
    edges = []
    for i in range(len(nodes) - 1):
        edges.append((nodes[i], nodes[i + 1]))
    if rng.random() < 0.6:
        edges.append((nodes[-1], nodes[0]))     # closes a cycle
    if rng.random() < 0.4:
        edges.append((nodes[0], nodes[2]))
    for (a, b) in edges:
        case['pairs'].append(dict(assets=[a, b] if rng.random() < 0.5 else [b, a], whitelist=['alice'], commission=rng.choice(['3000000000000000', '0', '30000000000000000'])))
    steps = case['steps']
    for i in range(len(edges)):
        steps.append(dict(op='provide', pair=i, sender='alice', amounts=[str(rng.randrange(10 ** 6, 10 ** 13)), str(rng.randrange(10 ** 6, 10 ** 13))]))
    adj = {}
    for (a, b) in edges:
        adj.setdefault(_akey(a), []).append(b)
        adj.setdefault(_akey(b), []).append(a)
    for _ in range(rng.randrange(2, 5)):
        start = rng.choice(nodes)
        route = []
        cur = start
        used = set()
        want_cycle = rng.random() < 0.25
        for _h in range(6 if want_cycle else rng.randrange(1, 5)):
            if want_cycle and route and _akey(cur) == _akey(start):
                break
            nxt = [n for n in adj.get(_akey(cur), []) if frozenset([_akey(cur), _akey(n)]) not in used]
            if not nxt:
                break
            n = rng.choice(nxt)
            used.add(frozenset([_akey(cur), _akey(n)]))
            route.append([cur, n])
            cur = n
        if not route:
            continue
        amt = rng.randrange(1000, 10 ** 9)
        sender = rng.choice(['bob', 'mallory'])
        to = rng.choice([None, 'carol', sender])
        steps.append(dict(op='router_reverse_simulate', route=route, amount=str(rng.choice([amt, amt * 1000, rng.randrange(1, 10 ** 5)]))))
        steps.append(dict(op='router_simulate', route=route, amount=str(amt), _for=len(steps) + 1))
        st = dict(op='router_swap', sender=sender, route=route, amount=str(amt), to=to, minimum_receive=None, _route=True)
        mode = rng.random()
        st['_min_mode'] = 'none' if mode < 0.3 else ('le' if mode < 0.5 else ('eq' if mode < 0.68 else ('gt' if mode < 0.86 else ('paid' if mode < 0.94 else 'huge'))))
        steps.append(st)
    if rng.random() < 0.3:
        steps.append(dict(op='router_swap', sender='bob', route=[], amount='0', to=None, minimum_receive=None, _empty=True))
    if rng.random() < 0.6 and len(edges) >= 2:
        # hops in arbitrary order / direction: accepted only if the remove-offer / insert-ask fold leaves exactly one asset
        hops = []
        for _w in range(rng.randrange(2, 5)):
            (a, b) = rng.choice(edges)
            hops.append([a, b] if rng.random() < 0.5 else [b, a])
        if rng.random() < 0.5 and len(edges) >= 2:
            (a, b) = edges[0]
            (c, d) = edges[1]
            # produce an asset again after its only consumer has run: [x->y, y->z, w->y]
            if _akey(b) == _akey(c):
                hops = [[a, b], [c, d], [rng.choice(nodes), b]]
        entry = hops[0][0]
        steps.append(dict(op='router_swap', sender='bob', route=hops, amount='100000', to=None, minimum_receive=None, _dangling=True, entry=entry))
    if rng.random() < 0.4 and len(edges) >= 2:
        # two dangling outputs: hops that do not chain
        (a, b), (c, d) = edges[0], edges[-1]
        steps.append(dict(op='router_swap', sender='bob', route=[[a, b], [c, d]] if _akey(b) != _akey(c) else [[a, b], [d, c]], amount='1000', to=None, minimum_receive=None, _dangling=True))
    return case


def finalize_route_case(case, sim_out):
    """Second pass: fill minimum_receive from a dry run's simulation results (around the quoted output)."""
    if 'steps' not in sim_out:
        return case
    for k, st in enumerate(case['steps']):
        if st.get('_route') and k > 0 and case['steps'][k - 1]['op'] == 'router_simulate':
            r = sim_out['steps'][k - 1]
            if r['ok']:
                q = int(r['res']['amount'])
                m = st['_min_mode']
                st['minimum_receive'] = None if m == 'none' else str(max(0, q - 1) if m == 'le' else (q if m == 'eq' else (q + 1 if m == 'gt' else (q + int(st['amount']) if m == 'paid' else 2 ** 128 - 1))))
                st['_quote'] = q
    return case


def check_route_scenario(case, out):
    v = []
    if 'steps' not in out:
        return v
    prev = out['init']
    router = out['init'].get('router')
    for k, (st, res) in enumerate(zip(case['steps'], out['steps'])):
        snap = res['snap']
        if st.get('_empty') and res['ok']:
            v.append(('C13', 'empty route accepted', k))
        if st.get('_dangling') and res['ok']:
            outs = set()
            for (a, b) in st['route']:
                outs.discard(_akey(a))
                outs.add(_akey(b))
            if len(outs) > 1:
                v.append(('C13', 'route with %d dangling output assets accepted' % len(outs), k))
        if st['op'] in ('router_simulate', 'router_reverse_simulate') and res['ok'] and res['res'].get('composed') is not None:
            if int(res['res']['amount']) != int(res['res']['composed']):
                v.append(('C12', 'router %s quote %s differs from the hop-by-hop composition of the pair queries %s for a %d-hop route' % ('reverse' if 'reverse' in st['op'] else 'forward', res['res']['amount'], res['res']['composed'], len(st['route'])), k))
        if st.get('_route') and '_quote' in st and k > 0 and case['steps'][k - 1]['op'] == 'router_simulate' and out['steps'][k - 1]['ok']:
            q = int(out['steps'][k - 1]['res']['amount'])     # the quote taken in THIS run, in the state the route executes in
            recv = st.get('to') or st['sender']
            last = st['route'][-1][1]
            first = st['route'][0][0]
            tokens = out.get('tokens', {})
            lk = asset_key(last, tokens)
            fk = asset_key(first, tokens)
            before = int(prev['accounts'][recv].get(lk, '0'))
            after = int(snap['accounts'][recv].get(lk, '0'))
            delta = after - before + (int(st['amount']) if (recv == st['sender'] and lk == fk) else 0)
            m = st.get('minimum_receive')
            if res['ok']:
                if delta != q:
                    v.append(('C13', 'recipient %s received %d of %s, router simulation quoted %d' % (recv, delta, lk, q), k))
                    v.append(('C12', 'router quote %d differs from the executed route %d' % (q, delta), k))
                if m is not None and delta < int(m):
                    v.append(('C11', 'route succeeded with minimum_receive %s but the recipient balance grew by %d (net of what the recipient itself paid in that asset)' % (m, delta), k))
                for key, val in snap['accounts'].get(router, {}).items():
                    if int(val) != int(prev['accounts'].get(router, {}).get(key, '0')):
                        v.append(('C13', 'router balance of %s changed %s -> %s: the route did not pass everything through' % (key, prev['accounts'].get(router, {}).get(key, '0'), val), k))
                sb = int(prev['accounts'][st['sender']].get(fk, '0')) - int(snap['accounts'][st['sender']].get(fk, '0'))
                if lk != fk and sb != int(st['amount']):
                    v.append(('C13', 'sender paid %d of %s, offered %s' % (sb, fk, st['amount']), k))
                for who in HOLDERS:
                    if who not in (st['sender'], recv) and prev['accounts'][who] != snap['accounts'][who]:
                        v.append(('C07', 'bystander %s balances changed by a route' % who, k))
            else:
                if snap != prev:
                    v.append(('C11', 'failed route changed state', k))
                if m is not None and q >= int(m) and len({_akey(h[0]) for h in st['route']} | {_akey(h[1]) for h in st['route']}) == len(st['route']) + 1:
                    v.append(('C11', 'route quoted %d >= minimum_receive %s but was rejected: %s' % (q, m, res.get('err', '')[-120:]), k))
        prev = snap
    return v



# ---------------------------------------------------------------- C19: paginated listing
def gen_pages_scenario(rng):
    """C19 at system level: register up to 45 pairs, then walk the listing with several page sizes."""
    import itertools
    nat = list(NATIVE_POOL)
    decs = {d: 6 for d in nat}
    natives = {'admin': {d: '10' for d in nat}}
    case = dict(kind='scenario', natives=natives, tokens=[{'name': 'A', 'decimals': 6, 'balances': {'alice': '1000'}}, {'name': 'B', 'decimals': 18, 'balances': {'alice': '1000'}}],
                native_decimals=decs, watch=[], pairs=[], steps=[])
    assets = [{'native': d} for d in nat] + [{'token': 'A'}, {'token': 'B'}]
    combos = list(itertools.combinations(assets, 2))
    rng.shuffle(combos)
    n = rng.choice([0, 1, 2, 5, 9, 10, 11, 12, 20, 29, 30, 31, 33, 41, 45])
    steps = case['steps']
    for (a, b) in combos[:n]:
        if rng.random() < 0.5:
            a, b = b, a
        steps.append(dict(op='create_pair', sender='admin', assets=[a, b], whitelist=['alice'], min=['0', '0'], commission=None))
    for lim in rng.sample([None, 1, 2, 3, 7, 10, 11, 29, 30, 31, 100], 4):
        steps.append(dict(op='walk_pairs', limit=lim))
    if rng.random() < 0.6:
        # C17 over a LARGE registry: a re-registration must reach every pair, also beyond one listing page
        dn = rng.choice(nat)
        steps.insert(n, dict(op='add_native_decimals', sender='admin', denom=dn, decimals=rng.choice([7, 9, 12])))
    case['_truth'] = dict(native=dict(decs), token={'A': 6, 'B': 18})
    created = [st_['assets'] for st_ in steps if st_['op'] == 'create_pair']
    for _ in range(3 if created else 0):
        # a continuation query with an explicit limit: the cap holds on every page, not only the first
        steps.append(dict(op='query_pairs', start_after=rng.choice(created), limit=rng.choice([31, 35, 100, 30, 1])))
    return case


def check_pages_scenario(case, out):
    v = []
    if 'steps' not in out:
        return v
    created = 0
    for k, (st, res) in enumerate(zip(case['steps'], out['steps'])):
        if st['op'] == 'create_pair' and res['ok']:
            created += 1
        if st['op'] == 'query_pairs' and res['ok']:
            lim = st.get('limit')
            cap = min(lim if lim is not None else 10, 30)
            if len(res['res']['pairs']) > cap:
                v.append(('C19', 'continuation page of %d entries with limit %s (cap %d)' % (len(res['res']['pairs']), lim, cap), k))
        if st['op'] != 'walk_pairs':
            continue
        if not res['ok']:
            v.append(('C19', 'walking the listing failed: %s' % res.get('err', '')[-160:], k))
            continue
        want = [p['addr'] for p in res['snap']['pairs']]
        pages = res['res']['pages']
        lim = st.get('limit')
        cap = min(lim if lim is not None else 10, 30)
        for pg in pages:
            if len(pg) > cap:
                v.append(('C19', 'page of %d entries with limit %s (cap %d)' % (len(pg), lim, cap), k))
        seen = [a for pg in pages for a in pg]
        if len(seen) != len(set(seen)):
            v.append(('C19', 'walk with limit %s visited a pair twice (%d entries, %d distinct)' % (lim, len(seen), len(set(seen))), k))
        if set(seen) != set(want):
            v.append(('C19', 'walk with limit %s visited %d of %d registered pairs' % (lim, len(set(seen) & set(want)), len(want)), k))
    return v


def search_special(run_cases, pid, rng, budget):
    """Registry / decimals / authority / route scenarios and the unit-level key search."""
    if pid == 'C16':
        cases = gen_key_cases(rng, 1500)
        outs = run_cases(cases)
        if outs is None:
            return None
        hit = check_key_cases(cases, outs)
        if hit:
            return hit
    gens = []
    if pid in ('C16', 'C17', 'C14', 'C07'):
        gens.append((gen_registry_scenario, check_registry_scenario, False))
    if pid == 'C19':
        gens.append((gen_pages_scenario, check_pages_scenario, False))
    if pid == 'C17':
        gens.append((gen_pages_scenario, check_registry_scenario, False))
    if pid == 'C14':
        gens.append((gen_auth_scenario, check_auth_scenario, False))
    if pid in ('C11', 'C13', 'C12', 'C07'):
        gens.append((gen_route_scenario, check_route_scenario, True))
    done = 0
    batch = 30
    while gens and done < budget:
        for g, chk, two_pass in gens:
            cases = [g(rng) for _ in range(batch)]
            outs = run_cases(cases)
            if outs is None:
                return None
            if two_pass:
                cases = [finalize_route_case(c, o.get('out', {})) if o.get('ok') else c for c, o in zip(cases, outs)]
                outs = run_cases(cases)
                if outs is None:
                    return None
            for c, o in zip(cases, outs):
                if not o.get('ok'):
                    continue
                for (p, why, k) in chk(c, o['out']):
                    if p == pid:
                        return dict(case=c, result=dict(step=k, steps_ok=[s['ok'] for s in o['out']['steps']]), why='%s (step %d: %s)' % (why, k, c['steps'][k]['op']), replay_kind='special:%s:%s' % (chk.__name__, pid))
        done += batch
    return None
