"""System-level scenario generator and property predicates, evaluated on the REAL contracts running in
cw-multi-test (replay crate, kind "scenario").  Used only to find / replay concrete counterexamples after the
verifier rejected an obligation or could not decide (see check.py); it never decides a property.
"""
import math
import random

D = 10 ** 18
ACTORS = ['alice', 'bob', 'carol', 'mallory']
HOLDERS = ACTORS + ['admin']


def isqrt(n):
    return math.isqrt(n)


def window(x, y, a):
    s = x + a
    if s == 0:
        return False
    r0 = (y * a) % s
    return r0 > 0 and D * (s - r0) < s


def asset_key(a, tokens):
    if 'native' in a:
        return a['native']
    return tokens[a['token']]


class Ctx:
    """Everything a predicate needs about one executed scenario."""

    def __init__(self, case, out):
        self.case = case
        self.out = out
        self.tokens = out.get('tokens', {})
        self.pairs = case['pairs']

    def pair_assets(self, pi):
        return [asset_key(a, self.tokens) for a in self.pairs[pi]['assets']]

    def reserves(self, snap, pi):
        return [int(x) for x in snap['pairs'][pi]['reserves']]

    def supply(self, snap, pi):
        return int(snap['pairs'][pi]['lp_supply'])

    def bal(self, snap, who, key):
        return int(snap['accounts'].get(who, {}).get(key, '0'))

    def total(self, snap, key):
        t = sum(int(v.get(key, '0')) for v in snap['accounts'].values())
        for i, p in enumerate(snap['pairs']):
            ks = self.pair_assets(i)
            for j in (0, 1):
                if ks[j] == key:
                    t += int(p['reserves'][j])
        return t


def check_scenario(case, out):
    """Return a list of (property id, description, step index) for every violated predicate."""
    v = []
    if 'steps' not in out:
        return v
    cx = Ctx(case, out)
    prev = out['init']
    all_keys = set()
    for i in range(len(case['pairs'])):
        all_keys.update(cx.pair_assets(i))
    last_sim = None
    for k, (st, res) in enumerate(zip(case['steps'], out['steps'])):
        snap = res['snap']
        op = st['op']
        if not res['ok']:
            if snap != prev:
                v.append(('C14', 'rejected %s changed state' % op, k))
                v.append(('C09', 'rejected %s changed state' % op, k))
            if op == 'withdraw' and st.get('_must_succeed'):
                v.append(('C20', 'withdrawal of %s LP with entitlement >= r_i/1e18+2 failed: %s' % (st['amount'], res.get('err', '')[-160:]), k))
            prev = snap
            continue
        if op in ('simulate', 'reverse_simulate'):
            last_sim = (st, res)
            prev = snap
            continue
        # ---- conservation / third parties (C07) ----
        if op in ('swap', 'provide', 'withdraw', 'router_swap'):
            for key in all_keys:
                if cx.total(prev, key) != cx.total(snap, key):
                    v.append(('C07', 'total of %s changed %d -> %d in %s' % (key, cx.total(prev, key), cx.total(snap, key), op), k))
            involved = {st.get('sender')}
            if st.get('to'):
                involved.add(st['to'])
            if st.get('receiver'):
                involved.add(st['receiver'])
            for who in HOLDERS:
                if who in involved:
                    continue
                if prev['accounts'].get(who) != snap['accounts'].get(who):
                    v.append(('C07', 'bystander %s balances changed in %s' % (who, op), k))
            for who in (st.get('to'), st.get('receiver')):
                if who and who != st.get('sender'):
                    for key, val in snap['accounts'].get(who, {}).items():
                        if int(val) < int(prev['accounts'][who].get(key, '0')):
                            v.append(('C07', 'receiver %s lost %s in %s' % (who, key, op), k))
        if op in ('swap', 'provide', 'withdraw', 'donate') and 'pair' in st:
            pi = st['pair']
            keys = cx.pair_assets(pi)
            r = cx.reserves(prev, pi)
            r2 = cx.reserves(snap, pi)
            s = cx.supply(prev, pi)
            s2 = cx.supply(snap, pi)
            in_window = False
            if op == 'swap':
                oi = st['offer_idx']
                ai = 1 - oi
                a = int(st['amount'])
                named_idx = st.get('named_idx', oi)
                named_amount = int(st.get('named_amount', st['amount']))
                named_key = asset_key(st['named'], cx.tokens) if 'named' in st else keys[named_idx]
                direct_token = st.get('direct') and 'token' in cx.pairs[pi]['assets'][oi]
                delivered = 0 if direct_token else a
                if 'funds' in st and 'native' in cx.pairs[pi]['assets'][oi]:
                    delivered = int(st['funds'].get(keys[oi], '0')) if isinstance(st['funds'], dict) else 0
                attrs = res['res'].get('attrs', {})
                n = int(attrs.get('return_amount', '0'))
                priced_key = attrs.get('offer_asset', named_key)
                priced_amount = int(attrs.get('offer_amount', named_amount))
                pidx = keys.index(priced_key) if priced_key in keys else None
                # C02: the reserve of the asset the trade was priced as offering rises by exactly the offer, delivered in this tx
                if pidx is None:
                    v.append(('C02', 'swap priced in an asset (%s) that is not in the pair' % priced_key, k))
                else:
                    if r2[pidx] - r[pidx] != priced_amount:
                        v.append(('C02', 'priced as offering %d of %s but that reserve moved %d -> %d' % (priced_amount, priced_key, r[pidx], r2[pidx]), k))
                        v.append(('C01', 'swap credited %d of %s, reserve moved %d -> %d' % (priced_amount, priced_key, r[pidx], r2[pidx]), k))
                        v.append(('C03', 'swap credited %d of %s, reserve moved %d -> %d' % (priced_amount, priced_key, r[pidx], r2[pidx]), k))
                    oth = 1 - pidx
                    if r[oth] - r2[oth] != n:
                        v.append(('C02', 'other reserve fell by %d, reported return %d' % (r[oth] - r2[oth], n), k))
                    recv = st.get('to') or st['sender']
                    gained = cx.bal(snap, recv, keys[oth]) - cx.bal(prev, recv, keys[oth])
                    if gained != n:
                        v.append(('C02', 'receiver %s gained %d of %s, reported return %d' % (recv, gained, keys[oth], n), k))
                    # C09: a named native amount must equal the attached funds of that denom
                    if 'native' in cx.pairs[pi]['assets'][pidx]:
                        attached = a if ('funds' not in st and pidx == oi) else (int(st['funds'].get(keys[pidx], '0')) if isinstance(st.get('funds'), dict) else 0)
                        if attached != priced_amount:
                            v.append(('C09', 'swap named %d of native %s with %d attached and succeeded' % (priced_amount, keys[pidx], attached), k))
                    # C01 / C06 on the actual reserves
                    x, y = r[pidx], r[oth]
                    in_window = window(x, y, priced_amount)
                    cr = int(cx.pairs[pi].get('commission') or 3 * 10 ** 15)
                    if not in_window:
                        if r2[0] * r2[1] < r[0] * r[1]:
                            v.append(('C01', 'reserve product fell %d -> %d' % (r[0] * r[1], r2[0] * r2[1]), k))
                        if r2[oth] <= 0 < r[oth]:
                            v.append(('C01', 'ask reserve emptied', k))
                    if r2[pidx] - r[pidx] == priced_amount and cr <= D:
                        sA = x + priced_amount
                        if not ((n + 1) * sA * D > y * priced_amount * (D - cr) and n * sA * D < y * priced_amount * (D - cr) + sA * D):
                            v.append(('C06', 'return %d outside g*(1-c) +- 1 for x=%d y=%d a=%d' % (n, x, y, priced_amount), k))
                    # C12: the preceding simulation of the same offer
                    if last_sim and last_sim[0].get('pair') == pi and last_sim[0].get('idx') == pidx and int(last_sim[0]['amount']) == priced_amount and last_sim[1]['ok'] and last_sim[0]['op'] == 'simulate':
                        q = last_sim[1]['res']
                        if int(q['return']) != n or str(q['spread']) != str(attrs.get('spread_amount')) or str(q['commission']) != str(attrs.get('commission_amount')):
                            v.append(('C12', 'simulation (%s,%s,%s) differs from execution (%d,%s,%s)' % (q['return'], q['spread'], q['commission'], n, attrs.get('spread_amount'), attrs.get('commission_amount')), k))
            if op == 'provide':
                amts = [int(st['amounts'][0]), int(st['amounts'][1])]
                declared = {keys[0]: amts[0], keys[1]: amts[1]}
                if 'assets' in st:
                    declared = {}
                    for a_ in st['assets']:
                        declared.setdefault(asset_key(a_, cx.tokens), int(a_['amount']))
                d = [declared.get(keys[0]), declared.get(keys[1])]
                sender = st['sender']
                recv = st.get('receiver') or sender
                if d[0] is None or d[1] is None:
                    v.append(('C05', 'provision succeeded although the declared assets %s are not the pair assets %s' % (list(declared), keys), k))
                    v.append(('C03', 'provision with foreign asset accepted', k))
                else:
                    for j in (0, 1):
                        if r2[j] - r[j] != d[j]:
                            v.append(('C05', 'declared deposit %d of %s but reserve moved %d -> %d' % (d[j], keys[j], r[j], r2[j]), k))
                        if cx.bal(prev, sender, keys[j]) - cx.bal(snap, sender, keys[j]) != d[j]:
                            v.append(('C05', 'caller paid %d of %s, declared %d' % (cx.bal(prev, sender, keys[j]) - cx.bal(snap, sender, keys[j]), keys[j], d[j]), k))
                        if 'native' in cx.pairs[pi]['assets'][j]:
                            attached = d[j] if 'funds' not in st else int(st['funds'].get(keys[j], '0'))
                            if attached != d[j]:
                                v.append(('C09', 'provide named %d of native %s with %d attached and succeeded' % (d[j], keys[j], attached), k))
                    m = s2 - s
                    got = cx.bal(snap, recv, 'lp%d' % pi) - cx.bal(prev, recv, 'lp%d' % pi)
                    if s > 0:
                        if not (m >= 1 and m * r[0] <= d[0] * s and m * r[1] <= d[1] * s and ((m + 1) * r[0] > d[0] * s or (m + 1) * r[1] > d[1] * s)):
                            v.append(('C05', 'minted %d for deposits %s into reserves %s supply %d' % (m, d, r, s), k))
                        if got != m:
                            v.append(('C05', 'receiver got %d LP, supply grew %d' % (got, m), k))
                    else:
                        if s2 != isqrt(d[0] * d[1]):
                            v.append(('C05', 'first supply %d != floor(sqrt(%d*%d))' % (s2, d[0], d[1]), k))
                        if int(snap['pairs'][pi]['lp_self']) != 1 or got != s2 - 1:
                            v.append(('C05', 'first provision: reserved unit %s, receiver got %d of %d' % (snap['pairs'][pi]['lp_self'], got, s2), k))
                        wl = cx.pairs[pi].get('whitelist', [])
                        mins = [int(x) for x in cx.pairs[pi].get('min', ['0', '0'])]
                        if sender not in wl or d[0] < mins[0] or d[1] < mins[1]:
                            v.append(('C05', 'first provision accepted from %s with %s (whitelist %s, minimums %s)' % (sender, d, wl, mins), k))
                    if st.get('slippage') is not None and s > 0 and d[0] and d[1] and r[0] and r[1]:
                        t = int(st['slippage'])
                        for (a_, b_, x_, y_) in ((d[0], d[1], r[0], r[1]), (d[1], d[0], r[1], r[0])):
                            if not a_ * (D - t) * y_ < (x_ * D + 2 * y_) * b_:
                                v.append(('C15', 'provision accepted outside tolerance: d=%s r=%s t=%d' % (d, r, t), k))
            if op == 'withdraw':
                a = int(st['amount'])
                sender = st['sender']
                if s - s2 != a:
                    v.append(('C04', 'supply fell by %d, burned %d' % (s - s2, a), k))
                if cx.bal(prev, sender, 'lp%d' % pi) - cx.bal(snap, sender, 'lp%d' % pi) != a:
                    v.append(('C04', 'holder LP fell by %d, burned %d' % (cx.bal(prev, sender, 'lp%d' % pi) - cx.bal(snap, sender, 'lp%d' % pi), a), k))
                for j in (0, 1):
                    x = r[j] - r2[j]
                    got = cx.bal(snap, sender, keys[j]) - cx.bal(prev, sender, keys[j])
                    if got != x:
                        v.append(('C04', 'holder received %d of %s, reserve fell %d' % (got, keys[j], x), k))
                    if s > 0 and not (x * s <= r[j] * a and x * D * s + r[j] * s + D * s > r[j] * a * D):
                        v.append(('C04', 'refund %d of %s outside (r*a/S - r/1e18 - 1, r*a/S] for r=%d a=%d S=%d' % (x, keys[j], r[j], a, s), k))
                        v.append(('C03', 'refund %d of %s outside bounds for r=%d a=%d S=%d' % (x, keys[j], r[j], a, s), k))
            # C03: share value never decreases
            if s > 0 and s2 > 0 and not in_window:
                if r2[0] * r2[1] * s * s < r[0] * r[1] * s2 * s2:
                    v.append(('C03', 'reserve0*reserve1/supply^2 decreased in %s: (%d,%d,%d) -> (%d,%d,%d)' % (op, r[0], r[1], s, r2[0], r2[1], s2), k))
        if op != 'simulate':
            last_sim = None
        prev = snap
    return v


# ---------------------------------------------------------------- generator

def rnd_mag(rng, cls):
    if cls == 'small':
        return rng.randrange(10 ** 5, 10 ** 10)
    if cls == 'mid':
        return rng.randrange(10 ** 12, 10 ** 15)
    if cls == 'big':
        return rng.randrange(10 ** 17, 10 ** 25)
    return rng.randrange(10 ** 26, 10 ** 29)


def gen_scenario(rng):
    kind = rng.choice(['nn', 'nt', 'tn', 'tt'])
    dec = rng.choice([(6, 6), (18, 18), (6, 18), (18, 6)])
    mk = {'n0': {'native': 'uusd'}, 'n1': {'native': 'uaura'}, 't0': {'token': 'A'}, 't1': {'token': 'B'}}
    assets = [mk[('n' if kind[0] == 'n' else 't') + '0'], mk[('n' if kind[1] == 'n' else 't') + '1']]
    cr = rng.choice(['3000000000000000', '0', '300000000000000000', '3333333333333333', '30000000000000000'])
    big = str(10 ** 33)
    natives = {a: {'uusd': big, 'uaura': big, 'ujunk': big} for a in ACTORS}
    natives['admin'] = {'uusd': '10', 'uaura': '10'}
    tokens = [{'name': 'A', 'decimals': dec[0], 'balances': {a: big for a in ACTORS}}, {'name': 'B', 'decimals': dec[1], 'balances': {a: big for a in ACTORS}}]
    mins = [str(rng.choice([0, 0, 1000])), str(rng.choice([0, 0, 1000]))]
    case = dict(kind='scenario', natives=natives, tokens=tokens, native_decimals={'uusd': dec[0], 'uaura': dec[1]}, watch=HOLDERS,
                pairs=[dict(assets=assets, commission=cr, whitelist=['alice'], min=mins)], steps=[])
    cls0 = rng.choice(['small', 'mid', 'big', 'huge'])
    cls1 = rng.choice(['small', 'mid', 'big', 'huge'])
    r0, r1 = rnd_mag(rng, cls0), rnd_mag(rng, cls1)
    steps = case['steps']
    if rng.random() < 0.15:
        steps.append(dict(op='provide', pair=0, sender=rng.choice(['bob', 'mallory']), amounts=[str(r0), str(r1)]))
    steps.append(dict(op='provide', pair=0, sender='alice', amounts=[str(r0), str(r1)]))
    est = [r0, r1]
    sup = isqrt(r0 * r1)
    n = rng.randrange(3, 8)
    for _ in range(n):
        c = rng.random()
        if c < 0.40:
            oi = rng.randrange(2)
            amt = max(1, int(est[oi] * rng.choice([1e-6, 1e-3, 0.01, 0.3, 1.0, 3.0])) + rng.randrange(0, 3))
            if rng.random() < 0.1:
                amt = rng.randrange(1, 10)
            st = dict(op='swap', pair=0, sender=rng.choice(['bob', 'mallory']), offer_idx=oi, amount=str(amt))
            if rng.random() < 0.3:
                st['to'] = 'carol'
            is_native = 'native' in assets[oi]
            adv = rng.random()
            if adv < 0.35:
                if is_native:
                    ch = rng.randrange(5)
                    key = assets[oi]['native']
                    if ch == 0:
                        st['funds'] = {key: str(max(0, amt - rng.randrange(1, amt + 1)))}
                    elif ch == 1:
                        st['funds'] = {key: str(amt + rng.randrange(1, 1000))}
                    elif ch == 2:
                        st['funds'] = {'ujunk': str(amt)}
                    elif ch == 3:
                        st['funds'] = {'ujunk': str(amt), key: str(amt // 2)}
                    else:
                        st['named_idx'] = 1 - oi
                else:
                    ch = rng.randrange(4)
                    if ch == 0:
                        st['named_idx'] = 1 - oi
                    elif ch == 1:
                        st['named_amount'] = str(amt + rng.randrange(1, 1000))
                    elif ch == 2:
                        st['direct'] = True
                    else:
                        st['direct'] = True
                        st['funds'] = {'ujunk': str(amt)}
            steps.append(dict(op='simulate', pair=0, idx=st.get('named_idx', oi), amount=st.get('named_amount', st['amount'])))
            steps.append(st)
            est[oi] += amt
        elif c < 0.65:
            f = rng.choice([1e-4, 0.01, 0.5, 2.0])
            d0 = max(1, int(est[0] * f))
            d1 = max(1, int(est[1] * f * rng.choice([1, 1, 1, 0.5, 2, 1.000001])))
            st = dict(op='provide', pair=0, sender=rng.choice(['alice', 'bob']), amounts=[str(d0), str(d1)])
            if rng.random() < 0.3:
                st['receiver'] = 'carol'
            if rng.random() < 0.3:
                st['reverse_order'] = True
            if rng.random() < 0.3:
                st['slippage'] = str(rng.choice([0, 10 ** 15, 10 ** 16, 5 * 10 ** 17, D]))
            adv = rng.random()
            if adv < 0.3:
                ch = rng.randrange(4)
                nat = [j for j in (0, 1) if 'native' in assets[j]]
                if ch == 0 and nat:
                    j = rng.choice(nat)
                    k_ = assets[j]['native']
                    amts = [d0, d1]
                    st['funds'] = {assets[i]['native']: str(amts[i]) for i in nat}
                    st['funds'][k_] = str(max(0, amts[j] + rng.choice([-1, 1, -amts[j]])))
                elif ch == 1 and nat:
                    # second declared asset replaced by an unrelated attached denom
                    j = rng.randrange(2)
                    amts = [d0, d1]
                    decl = []
                    for i in (0, 1):
                        a_ = dict(assets[i])
                        a_['amount'] = str(amts[i])
                        decl.append(a_)
                    decl[j] = {'native': 'ujunk', 'amount': str(amts[j])}
                    if rng.random() < 0.5:
                        decl.reverse()
                    st['assets'] = decl
                    f_ = {'ujunk': str(amts[j])}
                    for i in nat:
                        if i != j:
                            f_[assets[i]['native']] = str(amts[i])
                    st['funds'] = f_
                elif ch == 2:
                    st['allowances'] = [str(d0 * 2), str(d1 * 2)]
            steps.append(st)
            est[0] += d0
            est[1] += d1
        elif c < 0.9:
            frac = rng.choice([1e-6, 0.001, 0.1, 0.618, 0.9])
            amt = max(1, int(sup * frac))
            steps.append(dict(op='withdraw', pair=0, sender='alice', amount=str(amt)))
        else:
            idx = rng.randrange(2)
            steps.append(dict(op='donate', pair=0, sender='mallory', idx=idx, amount=str(max(1, int(est[idx] * rng.choice([1e-3, 1, 100]))))))
    return case


def search_scenarios(run_cases, pid, rng, budget):
    """Run random scenarios on the real contracts until a predicate of property `pid` is violated."""
    done = 0
    batch = 40
    while done < budget:
        cases = [gen_scenario(rng) for _ in range(batch)]
        outs = run_cases(cases)
        if outs is None:
            return None
        for c, o in zip(cases, outs):
            if not o.get('ok'):
                continue
            for (p, why, k) in check_scenario(c, o['out']):
                if p == pid:
                    return dict(case=c, result=dict(step=k, steps_ok=[s['ok'] for s in o['out']['steps']]), why='%s (step %d: %s)' % (why, k, c['steps'][k]['op']), replay_kind='scenario:' + pid)
        done += batch
    return None
