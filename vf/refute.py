"""Concrete execution of the REAL repository code (replay crate) for three purposes only:
  * replaying known-finding witnesses,
  * searching for a failing input after Verus rejected an obligation (Verus gives no counterexample),
  * replaying a recorded counterexample file (check --replay).
It never decides a property: exit codes come from the verifier's verdict on the obligations.
"""
import json
import os
import random
import subprocess

ROOT = os.path.dirname(os.path.dirname(os.path.abspath(__file__)))
CRATE = os.path.join(ROOT, 'replay')
TARGET = os.path.join(ROOT, '.work', 'replay-target')
BIN = os.path.join(TARGET, 'debug', 'replay')
D = 10 ** 18
M128 = 2 ** 128 - 1

_built = None


def build():
    global _built
    if _built is not None:
        return _built
    env = dict(os.environ, CARGO_TARGET_DIR=TARGET, CARGO_NET_OFFLINE='true')
    p = subprocess.run(['cargo', 'build', '--offline', '-q'], cwd=CRATE, env=env, stdout=subprocess.PIPE, stderr=subprocess.STDOUT, text=True)
    _built = (p.returncode == 0 and os.path.exists(BIN))
    if not _built:
        sys_msg = p.stdout[-1500:]
        build.error = sys_msg
    return _built


build.error = ''


def run_cases(cases):
    """Execute cases on the real code; returns list of result dicts (same order) or None if unavailable."""
    if not build():
        return None
    inp = '\n'.join(json.dumps(c) for c in cases) + '\n'
    p = subprocess.run([BIN], input=inp, stdout=subprocess.PIPE, stderr=subprocess.DEVNULL, text=True)
    outs = [json.loads(l) for l in p.stdout.split('\n') if l.strip()]
    if len(outs) != len(cases):
        return None
    return outs


# ---------------------------------------------------------------- predicates (exact integer arithmetic)

def window(x, y, a):
    s = x + a
    if s == 0:
        return False
    r0 = (y * a) % s
    return r0 > 0 and D * (s - r0) < s


def viol_C01(case, res):
    """returns description if the result violates C01 outside the recorded known-finding window."""
    if case['kind'] != 'compute_swap' or not res.get('ok'):
        return None
    x, y, a = int(case['x']), int(case['y']), int(case['a'])
    n = int(res['out']['n'])
    s = x + a
    if window(x, y, a):
        if n > (y * a) // s + 1 or n > y:
            return 'inside window but n=%d exceeds floor(y*a/(x+a))+1' % n
        return None
    if n * s > y * a:
        return 'n*(x+a)=%d > y*a=%d (over-payment outside the known window)' % (n * s, y * a)
    if y > 0 and n >= y:
        return 'ask reserve emptied: n=%d >= y=%d' % (n, y)
    return None


def viol_C01_any(case, res):
    if case['kind'] != 'compute_swap' or not res.get('ok'):
        return None
    x, y, a = int(case['x']), int(case['y']), int(case['a'])
    n = int(res['out']['n'])
    if n * (x + a) > y * a:
        return 'n*(x+a)=%d > y*a=%d' % (n * (x + a), y * a)
    return None


def viol_C06(case, res):
    if case['kind'] != 'compute_swap' or not res.get('ok'):
        return None
    x, y, a, cr = int(case['x']), int(case['y']), int(case['a']), int(case['cr'])
    n, sp, c = int(res['out']['n']), int(res['out']['spread']), int(res['out']['c'])
    s = x + a
    if cr <= D:
        if not (n + 1) * s * D > y * a * (D - cr):
            return 'n=%d <= g*(1-c) - 1' % n
        if not n * s * D < y * a * (D - cr) + s * D:
            return 'n=%d >= g*(1-c) + 1' % n
    if c != (n + c) * cr // D:
        return 'commission %d != floor(c*(n+commission))=%d' % (c, (n + c) * cr // D)
    if x > 0 and n + c + sp != (a * y) // x:
        return 'n+c+spread=%d != floor(a*y/x)=%d' % (n + c + sp, (a * y) // x)
    return None


def viol_C12_reverse(case, res):
    if case['kind'] != 'compute_offer_amount' or not res.get('ok'):
        return None
    x, y, k, cr = int(case['x']), int(case['y']), int(case['k']), int(case['cr'])
    o = int(res['out']['offer'])
    e = D - cr
    den = y * e - k * D
    if e <= 0 or den <= 0:
        return None
    # never above the closed form x*y/(y - k/(1-c)) - x
    if (o + x) * den > x * y * e:
        return 'offer %d above closed form' % o
    return None


M256 = 2 ** 256


def bn_oracle(op, a, b, c):
    """Independent big-natural reference: returns ('ok', value) or ('abort', reason)."""
    def fit(v):
        return ('ok', v) if 0 <= v < M256 else ('abort', 'result exceeds 256 bits')
    if op in ('uint_add', 'uint_add_assign', 'dec_add', 'dec_add_assign'):
        return fit(a + b)
    if op in ('uint_sub', 'dec_sub'):
        return ('ok', a - b) if a >= b else ('abort', 'negative difference')
    if op == 'uint_mul':
        return fit(a * b)
    if op in ('uint_mul_dec', 'dec_mul_uint'):
        if a * b >= M256:
            return ('abort', 'operand product exceeds 256 bits')
        return ('ok', a * b // D)
    if op == 'uint_div_dec':
        if b == 0:
            return ('abort', 'zero divisor')
        if a * D >= M256:
            return ('abort', 'operand product exceeds 256 bits')
        return ('ok', a * D // b)
    if op == 'multiply_ratio':
        if c == 0:
            return ('abort', 'zero divisor')
        if a * b >= M256:
            return ('abort', 'operand product exceeds 256 bits')
        return ('ok', a * b // c)
    if op == 'dec_mul':
        if a * b >= M256:
            return ('abort', 'operand product exceeds 256 bits')
        return ('ok', a * b // D)
    if op == 'dec_div':
        if b == 0:
            return ('abort', 'zero divisor')
        if a * D >= M256:
            return ('abort', 'operand product exceeds 256 bits')
        return ('ok', a * D // b)
    if op == 'from_ratio':
        if b == 0:
            return ('abort', 'zero divisor')
        if a * D >= M256:
            return ('abort', 'operand product exceeds 256 bits')
        return ('ok', a * D // b)
    if op == 'from_uint256':
        return fit(a * D)
    if op == 'percent':
        return ('ok', a * 10 ** 16)
    if op == 'permille':
        return ('ok', a * 10 ** 15)
    if op in ('cmp_uint', 'pcmp_uint', 'cmp_dec'):
        return ('ok', (a > b) - (a < b))
    if op in ('eq_uint', 'eq_dec'):
        return ('ok', int(a == b))
    if op in ('lt_uint', 'lt_dec'):
        return ('ok', int(a < b))
    if op in ('to_u128', 'to_uint128'):
        return ('ok', a) if a < 2 ** 128 else ('abort', 'does not fit 128 bits')
    if op in ('from_u128', 'from_uint128', 'from_u64'):
        return ('ok', a)
    if op in ('uint_is_zero', 'dec_is_zero'):
        return ('ok', int(a == 0))
    if op in ('dec_one',):
        return ('ok', D)
    if op in ('dec_zero', 'uint_zero'):
        return ('ok', 0)
    if op == 'uint_one':
        return ('ok', 1)
    return None


def viol_C08(case, res):
    if case.get('kind') != 'bn':
        return None
    a, b, c = int(case.get('a', 0)), int(case.get('b', 0)), int(case.get('c', 0))
    want = bn_oracle(case['op'], a, b, c)
    if want is None:
        return None
    if want[0] == 'abort':
        if res.get('ok'):
            return '%s returned %s but must abort (%s)' % (case['op'], res['out'].get('r'), want[1])
        return None
    if not res.get('ok'):
        return '%s aborted (%s) although the exact result %d is representable' % (case['op'], res.get('panic'), want[1])
    if int(res['out']['r']) != want[1]:
        return '%s returned %s, exact result is %d' % (case['op'], res['out']['r'], want[1])
    return None


def big_nums(rng):
    base = [0, 1, 2, 3, 10, 999, 10 ** 9, 10 ** 9 + 1, D - 1, D, D + 1, 5 * 10 ** 17 + 5 * 10 ** 8, 3 * D // 2, 5 * D // 2, 2 ** 32, 2 ** 63, 2 ** 64 - 1, 2 ** 64, 2 ** 64 + 1,
            2 ** 96, 2 ** 127, 2 ** 127 + 7, 2 ** 128 - 1, 2 ** 128, 2 ** 128 + 1, 2 ** 128 + 5, 2 ** 129 + 1, 10 ** 20, 10 ** 30, 10 ** 39, 2 * 10 ** 39, 10 ** 57, 10 ** 58,
            2 ** 191, 2 ** 192, 2 ** 192 + 2 ** 64 - 1, 2 ** 240 + 1, 2 ** 250 + 7, 2 ** 255, 2 ** 255 + 1, M256 - 1, M256 - 2, M256 // 3, M256 // D, M256 // D + 1,
            3333333333333333, 1000, 3000, 2 ** 64 * 5 + 3, (2 ** 64 - 1) * 2 ** 64 + 1, 1 + 2 ** 64 * 7 + 2 ** 128 * 3, 7 + 2 ** 64 * 3 + 2 ** 128 * 1]
    for _ in range(30):
        base.append(rng.randrange(0, 2 ** rng.choice([16, 64, 65, 100, 128, 129, 192, 200, 255, 256])))
    return base


def gen_bn_cases(rng, budget):
    ns = big_nums(rng)
    out = []
    bin_ops = ['uint_add', 'uint_add_assign', 'uint_sub', 'uint_mul', 'uint_mul_dec', 'dec_mul_uint', 'uint_div_dec', 'dec_add', 'dec_add_assign', 'dec_sub', 'dec_mul', 'dec_div',
               'from_ratio', 'cmp_uint', 'pcmp_uint', 'eq_uint', 'lt_uint', 'cmp_dec', 'lt_dec', 'eq_dec']
    un_ops = ['from_uint256', 'to_u128', 'to_uint128', 'uint_is_zero', 'dec_is_zero']
    for op in bin_ops:
        for a in ns:
            for b in rng.sample(ns, 14):
                out.append(dict(kind='bn', op=op, a=str(a), b=str(b)))
    for op in un_ops:
        for a in ns:
            out.append(dict(kind='bn', op=op, a=str(a)))
    for a in ns:
        if a < 2 ** 128:
            out.append(dict(kind='bn', op='from_u128', a=str(a)))
            out.append(dict(kind='bn', op='from_uint128', a=str(a)))
        if a < 2 ** 64:
            for op in ('from_u64', 'percent', 'permille'):
                out.append(dict(kind='bn', op=op, a=str(a)))
    for a in ns:
        for b in rng.sample(ns, 8):
            for c in rng.sample(ns, 4) + [1000, 3000, D]:
                out.append(dict(kind='bn', op='multiply_ratio', a=str(a), b=str(b), c=str(c)))
    for op in ('dec_one', 'dec_zero', 'uint_one', 'uint_zero'):
        out.append(dict(kind='bn', op=op))
    rng.shuffle(out)
    return out[:max(budget, 20000)]


PREDS = {'C01': viol_C01, 'C06': viol_C06, 'C12': viol_C12_reverse, 'C08': viol_C08}


# ---------------------------------------------------------------- input families

def nums(rng, extra=()):
    base = [0, 1, 2, 3, 7, 10, 999, 1000, 10 ** 6, 10 ** 9, 10 ** 12, D - 1, D, D + 1, 2 * D, 3 * D, 10 ** 24, 10 ** 30,
            2 ** 64 - 1, 2 ** 64, 2 ** 96, 2 ** 100, 2 ** 120, 2 ** 127, M128, 340282366920938463463374607431]
    base += list(extra)
    for _ in range(12):
        base.append(rng.randrange(1, 2 ** rng.choice([8, 16, 32, 64, 90, 128])))
    return [b for b in base if 0 <= b <= M128]


def gen_swap_cases(rng, budget):
    crs = [0, 1, 3 * 10 ** 15, 3 * 10 ** 16, D // 2, D - 1, D]
    ns = nums(rng)
    out = []
    # boundary cross product (thinned)
    for x in ns:
        for y in ns:
            for a in rng.sample(ns, 6):
                out.append((x, y, a, rng.choice(crs)))
    # window-adjacent: choose s > D, r0 close to s
    for _ in range(budget // 4):
        s = rng.randrange(D + 1, 2 ** rng.choice([64, 80, 100, 127]))
        a = rng.randrange(1, min(s, 2 ** 64))
        x = s - a
        y = rng.randrange(1, 2 ** rng.choice([20, 64, 100, 127]))
        out.append((x, y, a, rng.choice(crs)))
        # solve y so that (y*a) % s is s-1 when a is invertible mod s: a=1 => y = q*s + s-1
        q = rng.randrange(0, 2 ** 20)
        y2 = q * s + s - 1
        if y2 <= M128:
            out.append((s - 1, y2, 1, rng.choice(crs)))
    rng.shuffle(out)
    out = out[:budget]
    # reserve products just above 2^256/10^18 (where the 18-digit ratio no longer fits 256 bits) with an offer comparable to the offer pool,
    # and zero-commission swaps with a non-exact quotient: always included
    lim = M256 // D
    for _ in range(60):
        x = rng.choice([10 ** 21, 10 ** 24, 2 ** 70, 3 * 10 ** 29])
        y = lim // x * rng.choice([1, 1, 2, 7]) + rng.randrange(0, x)
        if y <= M128:
            out.append((x, y, x * rng.choice([1, 1, 2]) + rng.randrange(0, 1000), rng.choice(crs)))
    for _ in range(60):
        x = rng.randrange(10 ** 3, 10 ** 12); y = rng.randrange(10 ** 3, 10 ** 12)
        out.append((x, y, rng.randrange(1, x), 0))
    return [dict(kind='compute_swap', x=str(x), y=str(y), a=str(a), cr=str(cr)) for (x, y, a, cr) in out if x > 0]


def gen_offer_cases(rng, budget):
    crs = [0, 1, 3 * 10 ** 15, 3 * 10 ** 16, D // 2, D - 1]
    ns = nums(rng)
    out = []
    for x in ns:
        for y in ns:
            for k in rng.sample(ns, 5):
                out.append(dict(kind='compute_offer_amount', x=str(x), y=str(y), k=str(k), cr=str(rng.choice(crs))))
    rng.shuffle(out)
    return out[:budget]


GENS = {'C01': gen_swap_cases, 'C06': gen_swap_cases, 'C12': gen_offer_cases}


# ---------------------------------------------------------------- C18: text / JSON / width conversions
def _digits_ok(t):
    return all(c in '0123456789' for c in t)


def text_denotes(s):
    """Atomics denoted by a decimal text in the accepted grammar (numerals may be empty = 0, see units/math_text.rs), else None."""
    parts = s.split('.')
    if len(parts) == 1 and _digits_ok(parts[0]):
        return (int(parts[0]) if parts[0] else 0) * D
    if len(parts) == 2 and _digits_ok(parts[0]) and _digits_ok(parts[1]) and len(parts[1]) <= 18:
        return (int(parts[0]) if parts[0] else 0) * D + (int(parts[1]) if parts[1] else 0) * 10 ** (18 - len(parts[1]))
    return None


def render_dec(a):
    w, f = divmod(a, D)
    if f == 0:
        return str(w)
    return str(w) + '.' + ('%018d' % f).rstrip('0')


def gen_text_cases(rng, budget):
    ns = big_nums(rng)
    out = []
    for a in ns:
        if a < M256:
            for op in ('dec_render', 'uint_render', 'dec_json', 'uint_json'):
                out.append(dict(kind='text', op=op, a=str(a)))
            out.append(dict(kind='text', op='decimal_from_dec', a=str(a)))
            out.append(dict(kind='text', op='uint128_from_uint', a=str(a)))
            out.append(dict(kind='text', op='u128_from_uint', a=str(a)))
            for s_ in (render_dec(a), str(a), str(a) + '.', '.' + str(a)[:18], '0' * rng.randrange(0, 4) + render_dec(a)):
                out.append(dict(kind='text', op='dec_parse', s=s_))
                out.append(dict(kind='text', op='dec_json_parse', s=s_))
            out.append(dict(kind='text', op='uint_parse', s=str(a)))
            out.append(dict(kind='text', op='uint_try_from', s='00' + str(a)))
            out.append(dict(kind='text', op='uint_json_parse', s=str(a)))
        if a < 2 ** 128:
            out.append(dict(kind='text', op='dec_from_decimal', a=str(a)))
            out.append(dict(kind='text', op='uint_from_u128', a=str(a)))
            out.append(dict(kind='text', op='uint_from_uint128', a=str(a)))
        if a < 2 ** 64:
            out.append(dict(kind='text', op='uint_from_u64', a=str(a)))
    # trailing zeros / short and long fractions / boundaries of the 18-digit rule
    for _ in range(300):
        w = rng.choice([0, 1, 7, 10 ** 20, rng.randrange(0, 10 ** 40)])
        k = rng.randrange(0, 22)
        f = ''.join(rng.choice('0123456789') for _ in range(k))
        if rng.random() < 0.4 and k:
            f = f[:-1] + '0'
        out.append(dict(kind='text', op='dec_parse', s='%d.%s' % (w, f)))
        out.append(dict(kind='text', op='dec_render', a=str(w * D + (int(f[:18] or '0') * 10 ** (18 - min(k, 18))))))
    # malformed texts
    alphabet = '0123456789..-+ eEx,_'
    for _ in range(300):
        t = ''.join(rng.choice(alphabet) for _ in range(rng.randrange(0, 9)))
        out.append(dict(kind='text', op=rng.choice(['dec_parse', 'dec_json_parse']), s=t))
        out.append(dict(kind='text', op=rng.choice(['uint_parse', 'uint_try_from', 'uint_json_parse']), s=t))
    for t in ('', '.', '..', '1..2', '1.2.3', ' 1', '1 ', '+1', '-1', '1e3', '0x10', '١', '1.0000000000000000001', '1.000000000000000000', str(M256), str(M256 - 1), str(M256 // D) + '.0', str(M256 // D + 1)):
        out.append(dict(kind='text', op='dec_parse', s=t))
        out.append(dict(kind='text', op='uint_parse', s=t))
    rng.shuffle(out)
    return out[:max(budget, 4000)]


def viol_C18(case, res):
    if case.get('kind') != 'text':
        return None
    op = case['op']
    if not res.get('ok'):
        # an abort is allowed only when the value does not fit
        if op in ('dec_parse', 'dec_json_parse'):
            v = text_denotes(case['s'])
            if v is not None and v < M256 and all(len(p_) < 78 for p_ in case['s'].split('.')):
                # whole*10^18 may overflow although the parts fit: only complain when everything fits
                return 'parsing %r aborted although it denotes %d which fits 256 bits' % (case['s'], v)
            return None
        if op in ('decimal_from_dec', 'uint128_from_uint', 'u128_from_uint'):
            return None if int(case['a']) >= 2 ** 128 else '%s aborted on %s which fits 128 bits' % (op, case['a'])
        return '%s aborted: %s' % (op, res.get('panic', '')[:100])
    o = res['out']
    if op in ('dec_parse', 'dec_json_parse'):
        v = text_denotes(case['s'])
        if 'ok' in o:
            if v is None:
                return 'text %r was accepted (as %s) but denotes no number in the grammar' % (case['s'], o['ok'])
            if int(o['ok']) != v:
                return 'text %r parsed to %s atomics, it denotes %d' % (case['s'], o['ok'], v)
        elif v is not None and v < M256:
            return 'text %r denotes %d but was rejected' % (case['s'], v)
    elif op in ('uint_parse', 'uint_try_from', 'uint_json_parse'):
        s_ = case['s']
        v = (int(s_) if s_ else 0) if _digits_ok(s_) else None
        if 'ok' in o:
            if v is None or int(o['ok']) != v:
                return 'integer text %r parsed to %s' % (s_, o['ok'])
        elif v is not None and v < M256:
            return 'integer text %r denotes %d but was rejected' % (s_, v)
    elif op == 'dec_render':
        if o['text'] != render_dec(int(case['a'])):
            return 'Decimal256 of %s atomics rendered as %r, canonical numeral is %r' % (case['a'], o['text'], render_dec(int(case['a'])))
    elif op == 'uint_render':
        if o['text'] != case['a'] or o['string_from'] != case['a']:
            return 'Uint256 %s rendered as %r / %r' % (case['a'], o['text'], o['string_from'])
    elif op == 'dec_json':
        if o['json'] != '"%s"' % render_dec(int(case['a'])) or o['back'] != case['a']:
            return 'Decimal256 %s atomics through JSON: %r -> %r' % (case['a'], o['json'], o['back'])
    elif op == 'uint_json':
        if o['json'] != '"%s"' % case['a'] or o['back'] != case['a']:
            return 'Uint256 %s through JSON: %r -> %r' % (case['a'], o['json'], o['back'])
    elif op in ('dec_from_decimal', 'decimal_from_dec', 'uint128_from_uint', 'u128_from_uint', 'uint_from_u128', 'uint_from_uint128', 'uint_from_u64'):
        if o.get('ok') != case['a']:
            return 'width conversion %s of %s gave %s' % (op, case['a'], o.get('ok'))
    return None


PREDS['C18'] = viol_C18
GENS['C18'] = gen_text_cases


SCENARIO_PROPS = ('C01', 'C02', 'C03', 'C04', 'C05', 'C06', 'C07', 'C09', 'C10', 'C12', 'C14', 'C15', 'C20')


def evaluate(case, replay_kind, out):
    """Why (or None) the recorded output `out` of `case` violates the property its replay kind names."""
    if replay_kind == 'pair_key':
        return None
    if replay_kind.startswith('special:'):
        from . import scen
        _, fn, pidk = replay_kind.split(':')
        vs = [x for x in getattr(scen, fn)(case, out.get('out', {})) if x[0] == pidk] if out.get('ok') else []
        return vs[0][1] if vs else None
    if replay_kind.startswith('scenario:'):
        from . import scen
        pidk = replay_kind.split(':')[1]
        vs = [x for x in scen.check_scenario(case, out.get('out', {})) if x[0] == pidk] if out.get('ok') else []
        return vs[0][1] if vs else None
    return PREDS[replay_kind](case, out)


CORPUS = os.path.join(ROOT, 'corpus')


def corpus_cases(pid):
    """Regression corpus: concrete inputs that once exposed a violation of `pid` on some changed tree (harvested by the seed matrix).
    On the unchanged tree none of them violates anything (tools/validate_search.py checks that)."""
    path = os.path.join(CORPUS, pid + '.jsonl')
    out = []
    if os.path.exists(path):
        with open(path) as f:
            for line in f:
                line = line.strip()
                if line:
                    out.append(json.loads(line))
    return out


def search_corpus(pid):
    ents = corpus_cases(pid)
    if not ents:
        return None
    outs = run_cases([e['case'] for e in ents])
    if outs is None:
        return None
    for e, o in zip(ents, outs):
        why = evaluate(e['case'], e['replay_kind'], o)
        if why:
            return dict(case=e['case'], result=o if not e['replay_kind'].startswith(('scenario:', 'special:')) else dict(ok=o.get('ok')), why=why + ' [regression corpus]', replay_kind=e['replay_kind'])
    return None


def search(pid, failure, tier, seed):
    """After a rejected / undecidable obligation: look for a concrete failing input on the real code. Returns dict or None.
    The committed regression corpus of the property runs first (deterministic, a few seconds), then the random streams.
    The fixed stream (seed 0) always runs first, so that what the search finds does not depend on VERIF_SEED; a non-zero seed adds a second,
    seed-specific stream."""
    hit = search_corpus(pid)
    if hit:
        return hit
    for sd in ([0] if not seed else [0, seed]):
        hit = _search_stream(pid, failure, tier, sd)
        if hit:
            return hit
    return None


def _search_stream(pid, failure, tier, seed):
    rng = random.Random(seed * 1000003 + 17)
    if pid in PREDS:
        budget = 4000 if tier == 'quick' else 80000
        cases = GENS[pid](rng, budget)
        step = 2000
        for i in range(0, len(cases), step):
            chunk = cases[i:i + step]
            outs = run_cases(chunk)
            if outs is None:
                return None
            for c, o in zip(chunk, outs):
                why = PREDS[pid](c, o)
                if why:
                    return dict(case=c, result=o, why=why, replay_kind=pid)
    from . import scen
    if pid in ('C11', 'C13', 'C14', 'C16', 'C17', 'C12', 'C07', 'C19'):
        hit = scen.search_special(run_cases, pid, rng, 240 if tier == 'quick' else 6000)
        if hit:
            return hit
    if pid in SCENARIO_PROPS:
        return scen.search_scenarios(run_cases, pid, rng, 1200 if tier == 'quick' else 20000)
    return None


def check_known_finding(kf):
    cases = kf.get('witnesses', [])
    outs = run_cases(cases)
    if outs is None:
        return dict(reproduces=True, detail='replay crate unavailable (%s); finding assumed still open' % build.error[-300:])
    pred = {'C01-W1': viol_C01_any, 'C03-W1': viol_C01_any}.get(kf['id'])
    det = []
    rep = False
    for c, o in zip(cases, outs):
        why = pred(c, o) if pred else None
        det.append(dict(case=c, result=o, violates=why))
        if why:
            rep = True
    return dict(reproduces=rep, detail=det)


def replay_file(path):
    with open(path) as f:
        rec = json.load(f)
    ce = rec.get('counterexample')
    print('failed obligation:', rec['failed_obligation']['obligation'])
    print(rec['failed_obligation'].get('verus_output', ''))
    if not ce:
        print('no concrete failing input was found for this obligation (no-failing-input-found)')
        return 1
    outs = run_cases([ce['case']])
    if outs is None:
        print('replay crate unavailable:', build.error)
        return 2
    if ce['replay_kind'] == 'pair_key':
        from . import scen
        other = dict(ce['case'], a=ce['case']['b'], b=ce['case']['a'])
        print('replaying the reported key case and its mirror; the full search (check) re-derives the colliding partner')
        outs2 = run_cases([ce['case'], other])
        print(json.dumps(outs2))
        h = scen.check_key_cases([ce['case'], other], outs2)
        print('VIOLATION reproduced: ' + h['why'] if h else 'mirror keys agree on the current tree (collision partner not replayed)')
        return 1 if h else 0
    if ce['replay_kind'].startswith('special:'):
        from . import scen
        _, fn, pidk = ce['replay_kind'].split(':')
        o = outs[0]
        vs = [x for x in getattr(scen, fn)(ce['case'], o.get('out', {})) if x[0] == pidk] if o.get('ok') else []
        why = vs[0][1] if vs else None
    elif ce['replay_kind'].startswith('scenario:'):
        from . import scen
        pidk = ce['replay_kind'].split(':')[1]
        vs = [x for x in scen.check_scenario(ce['case'], outs[0].get('out', {})) if x[0] == pidk] if outs[0].get('ok') else []
        why = vs[0][1] if vs else None
    else:
        why = PREDS[ce['replay_kind']](ce['case'], outs[0])
    print('case:', json.dumps(ce['case']))
    print('result on current /repo:', json.dumps(outs[0]))
    if why:
        print('VIOLATION reproduced:', why)
        return 1
    print('not reproduced on the current tree')
    return 0


GENS['C08'] = gen_bn_cases


# ---------------------------------------------------------------- unit-level guards: route shape (C13), max spread (C10), slippage (C15)

def viol_ops(case, res):
    if case.get('kind') != 'assert_operations' or not res.get('ok'):
        return None
    outs = set()
    for a, b in case['ops']:
        lab = lambda s: s[2:]       # the contract keys assets by their displayed text (denom / address)
        outs.discard(lab(a))
        outs.add(lab(b))
    want = (len(outs) == 1)
    if res['out']['accepted'] != want:
        return 'route %s leaves %d dangling output asset(s) but was %s' % (case['ops'], len(outs), 'accepted' if res['out']['accepted'] else 'rejected')
    return None


def gen_ops_cases(rng, budget):
    labs = ['n:a', 'n:b', 't:c', 't:d', 'n:e']
    out = []
    for _ in range(budget):
        n = rng.randrange(1, 5)
        ops = []
        if rng.random() < 0.5:
            cur = rng.choice(labs)
            for _h in range(n):
                nxt = rng.choice([l for l in labs if l != cur])
                ops.append([cur, nxt])
                cur = nxt
            if rng.random() < 0.4 and len(ops) >= 2:
                ops.append([rng.choice(labs), ops[0][1]])
            if rng.random() < 0.3:
                rng.shuffle(ops)
        else:
            for _h in range(n):
                a, b = rng.sample(labs, 2)
                ops.append([a, b])
        out.append(dict(kind='assert_operations', ops=ops))
    return out


def viol_spread(case, res):
    if case.get('kind') != 'max_spread' or not res.get('ok'):
        return None
    od, rd = case['od'], case['rd']
    o, rt, sp = int(case['offer']), int(case['ret']), int(case['spread'])
    k = 10 ** abs(od - rd)
    if od > rd:
        rt, sp = rt * k, sp * k
    elif od < rd:
        o = o * k
    r = res['out']['r']
    s = case['max_spread']
    p = case['belief_price']
    if s is None:
        return None if r == 'ok' else 'guard fired without max_spread'
    s = int(s)
    if p is not None:
        p = int(p)
        if p == 0:
            return None
        if r == 'ok' and o * D > p and s < D and not rt * D * p > (o * D - p) * (D - s - 1):
            return 'accepted although return %d <= (offer/p - 1)*(1 - s - 1e-18) (offer %d, p %d, s %d, decimals %d/%d)' % (rt, o, p, s, od, rd)
        if r == 'guard' and not rt * p < o * (D - s):
            return 'rejected although return %d >= (offer/p)*(1-s) (offer %d, p %d, s %d, decimals %d/%d)' % (rt, o, p, s, od, rd)
    else:
        if rt + sp == 0:
            return None
        if r == 'ok' and not sp * D < (s + 1) * (rt + sp):
            return 'accepted although spread/(return+spread) >= s + 1e-18 (return %d spread %d s %d, decimals %d/%d)' % (rt, sp, s, od, rd)
        if r == 'guard' and not sp * D > s * (rt + sp):
            return 'rejected although spread/(return+spread) <= s (return %d spread %d s %d)' % (rt, sp, s)
    return None


def gen_spread_cases(rng, budget):
    out = []
    for _ in range(budget):
        od, rd = rng.choice([(6, 6), (8, 6), (6, 8), (18, 6), (6, 18), (0, 18), (18, 18), (9, 8)])
        o = rng.randrange(1, 10 ** rng.choice([3, 6, 9, 12]))
        rt = max(0, int(o * rng.choice([0.5, 0.9, 0.99, 1.0, 1.5, 150, 0.0066]) * 10 ** (rd - od)) + rng.randrange(-2, 3)) if rng.random() < 0.7 else rng.randrange(0, 10 ** 9)
        sp = int(rt * rng.choice([0, 0.001, 0.0099, 0.01, 0.0101, 0.1, 1.0])) + rng.randrange(0, 2)
        s = rng.choice([0, 10 ** 16, 10 ** 16 + 1, 5 * 10 ** 16, 5 * 10 ** 17, D - 1, D])
        bp = None
        if rng.random() < 0.6:
            bp = max(1, int(D * (o * 10 ** max(0, rd - od)) / max(1, rt * 10 ** max(0, od - rd)) * rng.choice([0.9, 0.95, 1.0, 1.01, 1.0526, 1.2]))) if rt > 0 else D
        out.append(dict(kind='max_spread', belief_price=(str(bp) if bp else None), max_spread=str(s), offer=str(o), ret=str(rt), spread=str(sp), od=od, rd=rd))
    return out


def viol_slip(case, res):
    if case.get('kind') != 'slippage' or not res.get('ok'):
        return None
    if case['t'] is None:
        return None if res['out']['r'] == 'ok' else 'rejected without a tolerance'
    t = int(case['t'])
    d0, d1, r0, r1 = int(case['d0']), int(case['d1']), int(case['r0']), int(case['r1'])
    r = res['out']['r']
    if t > D:
        return None if r != 'ok' else 'tolerance above 100% accepted'
    ok = lambda a, b, x, y: a * (D - t) * y < (x * D + 2 * y) * b
    safe = lambda a, b, x, y: a * (D - t) * y <= (x * D - y) * b
    if r == 'ok' and not (ok(d0, d1, r0, r1) and ok(d1, d0, r1, r0)):
        return 'provision accepted outside the tolerance: d=(%d,%d) r=(%d,%d) t=%d' % (d0, d1, r0, r1, t)
    if r == 'guard' and safe(d0, d1, r0, r1) and safe(d1, d0, r1, r0):
        return 'provision rejected although both ratios are within tolerance - 1e-18: d=(%d,%d) r=(%d,%d) t=%d' % (d0, d1, r0, r1, t)
    return None


def gen_slip_cases(rng, budget):
    out = []
    for _ in range(budget):
        r0 = rng.randrange(1, 10 ** rng.choice([2, 3, 6, 12, 20]))
        r1 = rng.randrange(1, 10 ** rng.choice([2, 3, 6, 12, 20]))
        f = rng.choice([0.001, 0.01, 0.5, 1, 3])
        d0 = max(1, int(r0 * f))
        d1 = max(1, int(r1 * f * rng.choice([1, 1, 0.98, 0.99, 1.01, 1.02, 0.5, 2])))
        if rng.random() < 0.2:
            d0, d1 = rng.randrange(1, 200), rng.randrange(1, 200)
        t = rng.choice([0, 10 ** 15, 10 ** 16, 2 * 10 ** 16, 5 * 10 ** 17, D, D + 1])
        out.append(dict(kind='slippage', t=str(t), d0=str(d0), d1=str(d1), r0=str(r0), r1=str(r1)))
    return out


PREDS.update({'C13': viol_ops, 'C10': viol_spread, 'C15': viol_slip})
GENS.update({'C13': gen_ops_cases, 'C10': gen_spread_cases, 'C15': gen_slip_cases})
