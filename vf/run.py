"""Run Verus on a generated unit and turn its diagnostics into named obligations."""
import json
import os
import re
import subprocess
import time

from . import gen

VERUS = os.environ.get('VERIF_VERUS', 'verus')

SEMANTIC = (
    'postcondition not satisfied', 'precondition not satisfied', 'assertion failed',
    'invariant not satisfied', 'possible arithmetic underflow/overflow', 'possible division by zero',
    'possible bit shift underflow/overflow', 'decreases not satisfied', 'index out of bounds',
    'loop invariant not satisfied', 'unreachable', 'recommendation not met',
    'possible truncation', 'cannot show', 'could not prove', 'unable to prove', 'precondition not met',
)
UNDECIDED = ('rlimit', 'resource limit', 'timed out', 'timeout')


class Failure:
    def __init__(self, kind, message, fnkey, tag, line, text, rendered, where):
        self.kind = kind            # 'semantic' | 'undecided' | 'tool'
        self.message = message
        self.fnkey = fnkey          # repo function key or None (lemma / shim)
        self.tag = tag              # (props, name) or None
        self.line = line
        self.text = text
        self.rendered = rendered
        self.where = where          # 'ensures' | 'body' | 'lemma'

    def name(self):
        if self.tag:
            return '%s[%s]' % (self.tag[1], ','.join(self.tag[0]))
        return '%s@%s' % (self.message, self.fnkey or 'preamble')

    def to_json(self):
        return dict(kind=self.kind, message=self.message, function=self.fnkey, obligation=self.name(),
                    gen_line=self.line, text=self.text, verus_output=self.rendered)


class UnitResult:
    def __init__(self):
        self.unit = self.mode = None
        self.gen_path = None
        self.g = None
        self.verified = 0
        self.errors = 0
        self.failures = []
        self.fn_times = {}
        self.fn_ok = {}
        self.wall_s = 0.0
        self.smt_ms = 0
        self.cmd = ''
        self.tool_error = None
        self.trusted = []

    @property
    def clean(self):
        return self.tool_error is None and not self.failures and self.errors == 0


def scan_trusted(text):
    """Mechanical scan for assumption keywords in the generated file (reported in evidence)."""
    out = []
    lines = text.split('\n')
    for i, l in enumerate(lines):
        if re.search(r'external_body|assume_specification|admit\(\)|assume\(|external_fn_specification|#\[verifier::external\]', l):
            # find a name on this or the following lines
            name = None
            for k in range(i, min(i + 4, len(lines))):
                mm = re.search(r'\b(fn|proof fn|struct|impl)\s+([A-Za-z_][A-Za-z0-9_:<>, ]*)', lines[k])
                if mm:
                    name = rs_norm(lines[k])
                    break
            out.append((i + 1, name or l.strip()))
    return out


def rs_norm(s):
    s = re.sub(r'\s+', ' ', s).strip()
    return s[:160]


def run_unit(unit_tpl, mode, workdir, modules=None, rlimit=None, seed=None, tag='', only=None):
    """only = (module, [functions]) restricts verification to some functions of one module (Verus --verify-only-module / --verify-function)."""
    res = UnitResult()
    res.unit, res.mode = unit_tpl, mode
    os.makedirs(workdir, exist_ok=True)
    g = gen.process(unit_tpl, {mode})
    res.g = g
    base = os.path.splitext(os.path.basename(unit_tpl))[0]
    suffix = re.sub(r'[^A-Za-z0-9]', 'x', ('_' + only[0] + '_' + '_'.join(only[1])) if only else '')   # never repeat a function name verbatim in the crate name
    path = os.path.join(workdir, '%s_%s%s%s.rs' % (base, mode, tag, suffix))
    with open(path, 'w') as f:
        f.write(g.text())
    res.gen_path = path
    res.trusted = scan_trusted(g.text())
    cmd = [VERUS, path, '--output-json', '--error-format=json', '--multiple-errors', '50', '--time']
    for m in modules or []:
        cmd += ['--verify-module', m]
    if only:
        cmd += ['--verify-only-module', only[0]]
        for fnn in only[1]:
            cmd += ['--verify-function', fnn]
    if rlimit:
        cmd += ['--rlimit', str(rlimit)]
    if seed is not None:
        cmd += ['--smt-option', 'smt.random_seed=%d' % seed]
    res.cmd = ' '.join(cmd)
    t0 = time.time()
    p = subprocess.run(cmd, stdout=subprocess.PIPE, stderr=subprocess.PIPE, text=True, cwd=workdir)
    res.wall_s = time.time() - t0
    # stdout: JSON summary; stderr: rustc-style JSON diagnostics (one per line)
    summary = None
    try:
        summary = json.loads(p.stdout)
    except Exception:
        i = p.stdout.find('{')
        if i >= 0:
            try:
                summary = json.loads(p.stdout[i:])
            except Exception:
                summary = None
    diags = []
    for line in p.stderr.split('\n'):
        line = line.strip()
        if line.startswith('{'):
            try:
                diags.append(json.loads(line))
            except Exception:
                pass
    if summary is None:
        # compile error before verification: verus prints diagnostics only
        msgs = [d.get('message', '') for d in diags if d.get('level') == 'error']
        res.tool_error = 'verus produced no summary: ' + ('; '.join(msgs[:5]) or p.stderr[-2000:])
        res.failures = [Failure('tool', m, None, None, 0, '', d.get('rendered', ''), 'tool') for d, m in zip(diags, msgs)]
        return res
    vr = summary.get('verification-results', {})
    res.verified = vr.get('verified', 0)
    res.errors = vr.get('errors', 0)
    if vr.get('encountered-vir-error'):
        msgs = [d.get('message', '') for d in diags if d.get('level') == 'error']
        res.tool_error = 'verus front-end error: ' + '; '.join(msgs[:5])
    try:
        for m in summary['times-ms']['smt']['smt-run-module-times']:
            for fb in m.get('function-breakdown', []):
                res.fn_times[fb['function']] = fb.get('time-micros', 0) / 1000.0
                res.fn_ok[fb['function']] = fb.get('success', True)
        res.smt_ms = summary['times-ms']['smt'].get('total', 0) if isinstance(summary['times-ms']['smt'].get('total', 0), (int, float)) else 0
    except Exception:
        pass
    for d in diags:
        if d.get('level') != 'error':
            continue
        msg = d.get('message', '')
        if msg.startswith('aborting due to'):
            continue
        low = msg.lower()
        spans = [s for s in d.get('spans', []) if os.path.basename(s.get('file_name', '')) == os.path.basename(path)]
        # choose the span that identifies the failed obligation
        pick = None
        for s in spans:
            lab = (s.get('label') or '')
            if 'failed this postcondition' in lab or 'failed precondition' in lab or 'failed this' in lab:
                pick = s
        where = 'ensures' if pick is not None and 'postcondition' in low else 'body'
        site = None
        for s in spans:
            if s.get('is_primary'):
                site = s
        if site is None and spans:
            site = spans[0]
        tagspan = pick or site
        tagv = None
        line = 0
        text = ''
        if tagspan is not None:
            line = tagspan['line_start']
            for ln in range(tagspan['line_start'], tagspan['line_end'] + 1):
                if ln in g.tags:
                    tagv = (g.tags[ln][0], g.tags[ln][1])
                    break
            text = ' '.join(t['text'].strip() for t in tagspan.get('text', []))[:400]
        # which repo function does the failure belong to: the span inside a function range
        fnkey = None
        for s in spans:
            k = g.fn_of_line(s['line_start'])
            if k:
                fnkey = k
                break
        if any(u in low for u in UNDECIDED):
            kind = 'undecided'
        elif any(sm in low for sm in SEMANTIC):
            kind = 'semantic'
        else:
            kind = 'tool'
        if fnkey is None and kind == 'semantic':
            where = 'lemma'
        res.failures.append(Failure(kind, msg, fnkey, tagv, line, text, d.get('rendered', ''), where))
    if res.errors and not res.failures:
        res.tool_error = 'verus reported %d errors but no diagnostics were parsed' % res.errors
    return res


def axiom_canary(res, workdir):
    """Vacuity guard: a proof of `false` that may use EVERY admitted broadcast axiom of the generated unit must be REJECTED.
    Returns (ok, detail): ok is False when Verus accepts the canary (the assumed axioms are inconsistent, so every proof is void)."""
    from . import rustscan as rs
    text = res.g.text()
    mask = rs.code_mask(text)
    mods = []
    for mm in rs.find_code(text, mask, r'(?m)^pub mod (\w+) \{'):
        ob = mm.end() - 1
        mods.append((mm.group(1), ob, rs.match_close(text, mask, ob)))
    axioms = []
    for mm in re.finditer(r'pub broadcast proof fn (\w+)', text):
        j = text.find('{', mm.end())
        k = text.find('\n', j)
        body = text[j:k if k > 0 else None]
        if 'admit()' not in text[mm.end():text.find('}', j) + 1]:
            continue
        owner = [m for m in mods if m[1] < mm.start() < m[2]]
        if owner:
            axioms.append('%s::%s' % (owner[0][0], mm.group(1)))
    if not axioms:
        return True, 'no admitted broadcast axioms'
    canary = '\npub mod zz_canary {\nuse super::*;\nproof fn canary_assumed_axioms_are_consistent() ensures false {\n    broadcast use {%s};\n}\n}\n' % ', '.join(axioms)
    i = text.rindex('} // verus!')
    path = res.gen_path.replace('.rs', '_canary.rs')
    with open(path, 'w') as f:
        f.write(text[:i] + canary + text[i:])
    p = subprocess.run([VERUS, path, '--verify-only-module', 'zz_canary', '--output-json'], stdout=subprocess.PIPE, stderr=subprocess.PIPE, text=True, cwd=workdir)
    try:
        summary = json.loads(p.stdout[p.stdout.find('{'):])
        vr = summary['verification-results']
    except Exception:
        return None, 'canary run produced no summary: ' + p.stderr[-300:]
    if vr.get('errors', 0) >= 1 and 'postcondition not satisfied' in p.stderr:
        return True, 'canary `ensures false` with %d admitted axioms in scope was rejected, as it must be' % len(axioms)
    if vr.get('errors', 0) == 0 and vr.get('verified', 0) >= 1:
        return False, 'canary `ensures false` VERIFIED with axioms %s' % axioms
    return None, 'canary run inconclusive: ' + p.stderr[-300:]


def precondition_probes(res, workdir):
    """Vacuity guard for `requires`: every probe (same signature and precondition, body `unreached()`) must be REJECTED.
    Returns (ok, detail, n): ok False when some probe verified (contradictory precondition), None when the run was inconclusive."""
    from . import rustscan as rs
    g = res.g
    lem = g.lemma_probes()
    if not g.probes and not lem:
        return True, 'no function or lemma of this unit carries a precondition', 0
    text = g.text_with_probes()
    path = res.gen_path.replace('.rs', '_probes.rs')
    with open(path, 'w') as f:
        f.write(text)
    mask = rs.code_mask(text)
    mods = []
    for mm in rs.find_code(text, mask, r'(?m)^pub mod (\w+) \{'):
        ob = mm.end() - 1
        mods.append((mm.group(1), ob, rs.match_close(text, mask, ob)))
    names = [n for _a, n, _k, _l in g.probes + lem]
    by_mod = {}
    for n in names:
        pos = text.find('fn ' + n + '(')
        if pos < 0:
            pos = text.find('fn ' + n)
        owner = [m for m in mods if m[1] < pos < m[2]]
        by_mod.setdefault(owner[0][0] if owner else None, []).append(n)
    ok_of = {}
    for mod, ns in by_mod.items():
        if mod is None:
            return None, 'a probe sits outside every module: %s' % ns, len(names)
        p = subprocess.run([VERUS, path, '--verify-only-module', mod, '--verify-function', '*zz_probe_*', '--output-json', '--time', '--multiple-errors', '200'],
                           stdout=subprocess.PIPE, stderr=subprocess.PIPE, text=True, cwd=workdir)
        try:
            summary = json.loads(p.stdout[p.stdout.find('{'):])
            if summary.get('verification-results', {}).get('encountered-vir-error'):
                return None, 'probe run hit a front-end error: ' + p.stderr[-300:], len(names)
            for m in summary['times-ms']['smt']['smt-run-module-times']:
                for fb in m.get('function-breakdown', []):
                    ok_of[fb['function'].split('::')[-1]] = fb.get('success', True)
        except Exception:
            return None, 'probe run produced no summary: ' + p.stderr[-300:], len(names)
    missing = [n for n in names if n not in ok_of]
    vac = [n for n in names if ok_of.get(n) is True]
    if vac:
        return False, 'precondition probes ACCEPTED (contradictory requires): %s' % vac, len(names)
    if missing:
        return None, 'probes not reported by the verifier: %s' % missing[:5], len(names)
    return True, '%d precondition / hypothesis probes (same `requires`, body `unreached()` resp. `ensures false`) were all rejected, as they must be' % len(names), len(names)
